#!/bin/bash
# Run once after a fresh restore (offline): installs icontract beside the repository's interpreter
# (git-ignored .deps) and warms the persistent JAX compilation cache (git-ignored .cache).
cd "$(dirname "$0")"
mkdir -p out evidence .cache/jax
if [ ! -d .deps/icontract ]; then
  /venv/bin/pip install -q --no-index --find-links /opt/veriftools/wheels --target .deps icontract || exit 1
fi
export PHOTON_WEAVE_VERIF=1 PYTHONPATH="$(pwd)" PYTHONHASHSEED=0 PYTHONDONTWRITEBYTECODE=1
# warm-up: a short generic workload compiles the small XLA kernels every check needs (results discarded)
/venv/bin/python -m pwv.main C07 --budget 40 --warmup >/dev/null 2>&1 || true
echo "setup done"
