"""Oracles for C08(a), C10, C11, C17 over StepRecords (same verdict format as pwv.oracles)."""
import numpy as np

from pwv import ref, spec as S, opspec, wellformed
from pwv.oracles import V, step_sig, state_class, pre_ok, judge_apply, contraction_slack
from pwv.run import rho_pre, rho_post, rec_dims
from pwv.world import Malformed, blocks, block_rho, denote, impl_dims, live, fock_dim


# --------------------------------------------------------------------------- C08 (a)


def _bytes_equal(s0, s1):
    if s0[0] != s1[0]:
        return False
    if s0[0] in ("vec", "mat", "arr"):
        a, b = np.asarray(s0[1]), np.asarray(s1[1])
        return a.shape == b.shape and a.dtype == b.dtype and a.tobytes() == b.tobytes()
    return s0[1] == s1[1]


LV = {"L": 0, "V": 1, "M": 2}


def judge_c08(rec):
    st = rec.step
    if st["k"] not in ("expand", "contract") or st.get("fault") or st.get("dead_probe"):
        return []
    sig = step_sig(rec)
    sig["contraction"] = rec.contraction
    w = rec.world
    names = list(st.get("targets", []))
    if st.get("via") == "env":
        names = [st["env"] + ".f", st["env"] + ".p"]
    names = [n for n in names if n in live(rec.pre)]
    if not pre_ok(rec) or not names:
        return [V("C08", "inconclusive", "pre-malformed", cell=(st["k"],), **sig)]
    try:
        b0 = {tuple(b["members"]): b for b in blocks(rec.pre) if set(b["members"]) & set(names)}
    except Malformed:
        return [V("C08", "inconclusive", "pre-malformed", cell=(st["k"],), **sig)]
    pur = "-"
    out = []
    cls = []
    # purity tolerance in force: the caller's for an explicit contract(tol=...), else the documented default
    t = float(st.get("tol", 1e-6)) if st["k"] == "contract" else 1e-6
    deficit = 0.0
    for mem, b in b0.items():
        r, d = block_rho(b, rec.pre)
        p = ref.purity(r)
        cls.append("pure" if p > 1 - 1e-9 else "mixed" if p < 1 - max(1e-4, 2 * t) else "edge")
        if cls[-1] == "edge":
            deficit = max(deficit, 1 - p)
    pur = "+".join(sorted(set(cls)))
    cell = (st["k"], sig["via"], sig["storage"], sig["level"], pur, rec.contraction, st.get("final", "-"), st.get("tol", "-"))
    sig["purity"] = pur
    # physics unchanged (also when the call raised)
    try:
        r0, d0 = rho_pre(rec)
        r1, d1 = rho_post(rec)
    except Malformed as e:
        return [V("C08", "violated", "post-unreadable", str(e), cell=cell, **sig)]
    if live(rec.pre) != live(rec.post) or d0 != d1:
        return [V("C08", "violated", "live-set-changed", "", cell=cell, **sig)]
    e = ref.maxdiff(r0, r1)
    # a block whose purity deficit lies between 1e-9 and 1e-4 sits on the library's documented contraction tolerance
    # (1e-6 on Tr rho^2): contracting it may legitimately move the state by up to ~1e-6
    # (with a caller-chosen tolerance t the block may be replaced by its dominant eigenvector whenever the deficit
    # is below t; that moves the state by at most the deficit)
    tol = (2e-6 if t <= 1e-6 else max(2e-6, 2 * deficit)) if "edge" in cls else S.EXACT_TOL
    if e > tol:
        out.append(V("C08", "violated", "state-changed", f"{st['k']}: maxabs={e:.3g}", cell=cell, **sig))
    # level rules per addressed block
    try:
        b1 = {tuple(b["members"]): b for b in blocks(rec.post)}
    except Malformed as ex:
        return out + [V("C08", "violated", "post-unreadable", str(ex), cell=cell, **sig)]
    for (mem, b), c in zip(b0.items(), cls):
        nb = b1.get(mem)
        if nb is None:
            continue
        l0, l1 = LV.get(b["level"], -1), LV.get(nb["level"], -1)
        if st["k"] == "contract":
            if c == "mixed" and not _bytes_equal(b["state"], nb["state"]):
                out.append(V("C08", "violated", "mixed-state-touched", f"block {list(mem)}: a mixed state was modified by contract ({b['level']}->{nb['level']})", cell=cell, **sig))
            if l1 > l0:
                out.append(V("C08", "violated", "contract-raised-level", f"{b['level']}->{nb['level']}", cell=cell, **sig))
            if l1 == 0 and l0 > 0:
                # contraction to a label is only allowed for an exact basis state
                r, d = block_rho(b, rec.pre)
                dg = np.real(np.diag(r))
                if dg.max() < 1 - 1e-9 and not _is_pol_label(r):
                    out.append(V("C08", "violated", "label-from-non-basis-state", f"block {list(mem)}", cell=cell, **sig))
        else:
            if l1 < l0:
                out.append(V("C08", "violated", "expand-lowered-level", f"{b['level']}->{nb['level']}", cell=cell, **sig))
    if not out:
        out.append(V("C08", "held", cell=cell, **sig))
    return out


def _is_pol_label(r):
    if r.shape != (2, 2):
        return False
    from pwv.world import POLVEC
    for v in POLVEC.values():
        if ref.maxdiff(r, np.outer(v, v.conj())) < 1e-7:
            return True
    return False


# --------------------------------------------------------------------------- C10


def judge_resize(rec):
    st = rec.step
    if st["k"] != "resize" or st.get("fault") or st.get("dead_probe"):
        return []
    f = st["targets"][0]
    n = int(st["n"])
    sig = step_sig(rec)
    if f not in live(rec.pre):
        return []
    if not pre_ok(rec):
        return [V("C10", "inconclusive", "pre-malformed", cell=("resize",), **sig)]
    d0 = impl_dims(rec.pre)[f]
    r, _ = rho_pre(rec, [f])
    nmax = S.support_max(np.real(np.diag(r)))
    rel = "grow" if n > d0 else "same" if n == d0 else ("shrink-ok" if n > nmax else "shrink-cut")
    if n < 1:
        rel = "nonpositive"
    sc = state_class(rec, [f])
    cell = ("resize", sig["via"], sig["storage"], sig["level"], rel, sc)
    sig["rel"] = rel
    sig["state"] = sc
    if rec.exc is not None:
        return [V("C10", "violated", "spurious-exception", f"{rec.exc_type}: {rec.exc_msg}", cell=cell, **sig)]
    ret = rec.ret
    out = []
    try:
        r0, dd0 = rho_pre(rec)
        r1, dd1 = rho_post(rec)
    except Malformed as e:
        return [V("C10", "violated", "post-unreadable", str(e), cell=cell, **sig)]
    d1 = impl_dims(rec.post).get(f)
    raw1 = rec.post.subs[f]["dims"]
    if live(rec.pre) != live(rec.post):
        return [V("C10", "violated", "live-set-changed", "", cell=cell, **sig)]
    e = ref.maxdiff(r0, r1)
    if e > S.EXACT_TOL:
        out.append(V("C10", "violated", "population-lost" if ret else "state-changed-on-failure",
                     f"resize({n}) of {f} (dim {d0}, highest occupied {nmax}) returned {ret}; joint state changed by {e:.3g}", cell=cell, **sig))
    if ret is True:
        if raw1 != n:
            out.append(V("C10", "violated", "dimension-not-set", f"returned True but dimensions={raw1}, requested {n}", cell=cell, **sig))
    elif ret is False:
        if rec.pre.subs[f]["dims"] != raw1:
            out.append(V("C10", "violated", "dimension-changed-on-failure", f"{rec.pre.subs[f]['dims']}->{raw1}", cell=cell, **sig))
        if rel == "grow":
            out.append(V("C10", "violated", "grow-refused", f"resize({n}) from {d0} returned False", cell=cell, **sig))
    else:
        out.append(V("C10", "violated", "bad-return", f"resize returned {ret!r}", cell=cell, **sig))
    if not out:
        out.append(V("C10", "held", cell=cell, **sig))
    return out


def judge_truncation(rec):
    """C10 (b): the automatically chosen dimension keeps the result within the documented threshold"""
    st = rec.step
    if st["k"] != "apply" or st.get("fault") or st.get("dead_probe"):
        return []
    sp = st["op"]
    if sp["fam"] not in ("fock", "comp"):
        return []
    w = rec.world
    focks = [t for t in st["targets"] if w.kind(t) == "F"]
    if not focks:
        return []
    sig = step_sig(rec)
    approx = S.is_approx(sp)
    sc = state_class(rec, st["targets"])
    ph = "-"
    if "alpha" in sp:
        ph = int(np.floor((np.angle(complex(*sp["alpha"])) % (2 * np.pi)) / (np.pi / 4)))
    if "zeta" in sp:
        ph = int(np.floor((np.angle(complex(*sp["zeta"])) % (2 * np.pi)) / (np.pi / 4)))
    cell = ("auto-dim", sig.get("op"), sig["via"], sig["storage"], sig["level"], sc, ph)
    sig["state"] = sc
    if not pre_ok(rec):
        return [V("C10", "inconclusive", "pre-malformed", cell=cell, **sig)]
    try:
        exp = S.expected_apply(rec)
    except S.Invalid as e:
        return [V("C10", "inconclusive", "invalid-request", str(e), cell=cell, **sig)]
    if rec.exc is not None:
        return [V("C10", "violated", "spurious-exception", f"{rec.exc_type}: {rec.exc_msg}", cell=cell, **sig)]
    try:
        got, gd = rho_post(rec, exp["names"], exp["need"])
    except Malformed as e:
        return [V("C10", "violated", "post-unreadable", str(e), cell=cell, **sig)]
    out = []
    post_dims = impl_dims(rec.post)
    # reported dimension equals the stored axis length is implied by a readable post state;
    # population of the ideal result outside the chosen cutoff
    names, dims = exp["names"], exp["dims"]
    lost = 0.0
    for f in focks:
        a = names.index(f)
        dg = ref.diag_probs(exp["rho"], dims, a)
        c = post_dims.get(f) or 0
        lost = max(lost, float(dg[c:].sum()))
    sig["approx"] = approx
    if approx:
        ok, err, meas = S.compare_states(got, exp["rho"], True)
        if lost > S.APPROX_LOSS or not ok:
            out.append(V("C10", "violated", "truncation-loss", f"{sig.get('op')}: population of the ideal result outside the chosen cutoff {lost:.3g}; {meas}={err:.3g}", cell=cell, **sig))
        elif lost > S.APPROX_LOSS_BAND:
            out.append(V("C10", "inconclusive", "loss-band", f"{lost:.3g}", cell=cell, **sig))
        else:
            out.append(V("C10", "held", cell=cell, **sig))
    else:
        ok, err, meas = S.compare_states(got, exp["rho"], False)
        if lost > 1e-10:
            out.append(V("C10", "violated", "exact-op-truncated", f"{sig.get('op')}: population {lost:.3g} of the exact result lies outside the chosen dimension", cell=cell, **sig))
        elif not ok:
            out.append(V("C10", "inconclusive", "wrong-state-not-truncation", f"{meas}={err:.3g}", cell=cell, **sig))
        else:
            out.append(V("C10", "held", cell=cell, **sig))
    return out


# --------------------------------------------------------------------------- C11


def total_number_dist(rho, dims, axes):
    """distribution of n_a + n_b + ... over the given Fock axes"""
    r = ref.reduced(rho, dims, axes)
    dd = [dims[a] for a in axes]
    dg = np.real(np.diag(r)).reshape(dd)
    out = np.zeros(sum(dd) - len(dd) + 1)
    for idx in np.ndindex(*dd):
        out[sum(idx)] += dg[idx]
    return out


def judge_c11(rec):
    st = rec.step
    if st["k"] != "apply" or st.get("fault") or st.get("dead_probe"):
        return []
    sp = st["op"]
    isbs = sp["fam"] == "comp" and sp["type"] == "NonPolarizingBeamSplitter"
    isph = sp["fam"] == "fock" and sp["type"] == "PhaseShift"
    if not (isbs or isph):
        return []
    sig = step_sig(rec)
    sc = state_class(rec, st["targets"])
    cell = ("optics", sig.get("op"), sig["via"], sig["storage"], sig["level"], sc)
    sig["state"] = sc
    if not pre_ok(rec):
        return [V("C11", "inconclusive", "pre-malformed", cell=cell, **sig)]
    try:
        exp = S.expected_apply(rec)
    except S.Invalid as e:
        return [V("C11", "inconclusive", "invalid-request", str(e), cell=cell, **sig)]
    if rec.exc is not None:
        return [V("C11", "violated", "spurious-exception", f"{rec.exc_type}: {rec.exc_msg}", cell=cell, **sig)]
    out = []
    try:
        r0, d0 = rho_pre(rec, exp["names"], exp["need"])
        r1, d1 = rho_post(rec, exp["names"], exp["need"])
    except Malformed as e:
        return [V("C11", "violated", "post-unreadable", str(e), cell=cell, **sig)]
    axes = [exp["names"].index(t) for t in st["targets"]]
    n0 = total_number_dist(r0, d0, axes)
    n1 = total_number_dist(r1, d1, axes)
    e = float(np.max(np.abs(n0 - n1))) if n0.shape == n1.shape else float("inf")
    if e > 1e-8:
        out.append(V("C11", "violated", "photon-number-not-conserved", f"{sig.get('op')}: total-number distribution changed by {e:.3g}: {np.round(n0, 6).tolist()} -> {np.round(n1, 6).tolist()}", cell=cell, **sig))
    ok, err, meas = S.compare_states(r1, exp["rho"], False)
    if not ok and err <= S.EXACT_TOL + contraction_slack(rec, exp["rho"], exp["dims"], exp["names"]):
        ok = True
    if not ok:
        out.append(V("C11", "violated", "not-su2", f"{sig.get('op')}: differs from the SU(2) mode transformation, {meas}={err:.3g}", cell=cell, **sig))
    if not out:
        out.append(V("C11", "held", cell=cell, **sig))
    return out


# --------------------------------------------------------------------------- C17


def judge_c17(rec):
    st = rec.step
    if not st.get("fault"):
        return []
    sig = step_sig(rec)
    sig["fault"] = st["fault"]
    cell = ("fault", st["fault"], st["k"], sig["via"], sig["storage"], sig["level"])
    if not pre_ok(rec) or wellformed.c13(rec.pre, rec.world):
        return [V("C17", "inconclusive", "pre-malformed", cell=cell, **sig)]
    out = []
    rejected = rec.exc is not None or (st.get("failure_value", "<none>") != "<none>" and rec.ret == st["failure_value"])
    if not rejected:
        out.append(V("C17", "violated", "accepted-invalid-request", f"{st['fault']}: {st['k']} via {st.get('via')} returned {str(rec.ret)[:60]!r}", cell=cell, **sig))
    try:
        r0, d0 = rho_pre(rec)
        r1, d1 = rho_post(rec)
        if live(rec.pre) != live(rec.post):
            out.append(V("C17", "violated", "state-changed", f"{st['fault']}: live set {live(rec.pre)} -> {live(rec.post)}", cell=cell, **sig))
        elif d0 != d1 or ref.maxdiff(r0, r1) > S.EXACT_TOL:
            out.append(V("C17", "violated", "state-changed", f"{st['fault']}: joint state changed by {ref.maxdiff(r0, r1) if d0 == d1 else 'dims'} although the request was {'rejected' if rejected else 'invalid'}", cell=cell, **sig))
    except Malformed as e:
        out.append(V("C17", "violated", "state-corrupted", f"{st['fault']}: {e}", cell=cell, **sig))
    probs = wellformed.c13(rec.post, rec.world)
    if probs:
        out.append(V("C17", "violated", "graph-corrupted", f"{st['fault']}: {probs[0][0]}: {probs[0][1]}", cell=cell, **sig))
    elif not out:
        p7 = wellformed.c07(rec.post)
        if p7:
            out.append(V("C17", "violated", "state-corrupted", f"{st['fault']}: {p7[0][0]}: {p7[0][1]}", cell=cell, **sig))
    if not out:
        out.append(V("C17", "held", cell=cell, **sig))
    return out


# --------------------------------------------------------------------------- C12 / C16 in situ


def judge_c12_step(rec):
    """operators requested through the Operation interface are the reference matrices at the dimension of the
    target; plus every verdict the constructor contracts recorded while the library executed this step"""
    from pwv import contracts
    out = contracts.drain("C12")
    st = rec.step
    if st["k"] != "apply" or rec.exc is not None or rec.op_obj is None or st.get("fault") or st.get("dead_probe"):
        return out
    sp = st["op"]
    sig = step_sig(rec)
    cell = ("Operation.operator-in-situ", sig.get("op"), sig["via"], sig["storage"])
    op = rec.op_obj
    try:
        dims = list(op._dimensions)
    except Exception:  # noqa: BLE001
        return out
    w = rec.world
    post = impl_dims(rec.post)
    for i, t in enumerate(st["targets"]):
        if w.kind(t) == "F" and i < len(dims) and post.get(t) is not None and sp["type"] != "Expression":
            if dims[i] != post[t]:
                out.append(V("C12", "violated", "operator-dimension", f"{sig.get('op')}: operator built for dimension {dims[i]} but target {t} has {post[t]}", cell=cell, **sig))
                return out
    try:
        got = np.asarray(op.operator, complex)
        rdims = [post.get(t) or 2 for t in st["targets"]] if sp["fam"] != "comp" or sp["type"] != "Expression" else dims
        want = opspec.ref_operator(sp, rdims if sp["fam"] in ("fock", "comp") else dims)
        e = ref.maxdiff(got, np.asarray(want, complex))
    except Exception as ex:  # noqa: BLE001
        return out + [V("C12", "inconclusive", "in-situ-unreadable", str(ex), cell=cell, **sig)]
    tol = 2e-6 if sp["type"] in ("Expresion", "Expression") else 1e-7 if sp["type"] in ("Displace", "Squeeze", "NonPolarizingBeamSplitter") else 1e-8
    if e > tol:
        out.append(V("C12", "violated", "operation-operator", f"{sig.get('op')} at dims {dims}: maxabs={e:.3g}", cell=cell, **sig))
    else:
        out.append(V("C12", "held", cell=cell, **sig))
    return out


def judge_c16_step(rec):
    """verdicts the interpreter contract recorded while the library evaluated expressions during this step;
    the context must have been called with the dimension list only"""
    from pwv import contracts
    out = contracts.drain("C16")
    for v in out:
        v["cell"] = ("in-situ",) + tuple(v["cell"] or ())
    return out


def judge_c16_effect(rec):
    """in situ: what an expression-defined operation did to the joint state equals the value of its expression at
    the dimension list of its operands (also when the Operation object was used on other operands before)"""
    st = rec.step
    if st["k"] != "apply" or "expr" not in (st.get("op") or {}) or st.get("fault") or st.get("dead_probe"):
        return []
    from pwv import oracles as O
    out = []
    for pr in ("C01", "C03"):
        for v in O.judge_apply(rec, pr):
            v = dict(v)
            v["prop"] = "C16"
            if v["status"] == "violated":
                v["mode"] = "in-situ-" + v["mode"]
            v["cell"] = ("in-situ-effect", st["op"]["fam"] + "." + st["op"]["type"], "reused" if st.get("op_id") is not None else "fresh")
            out.append(v)
    return out
