"""Entry point of every check: shards the workload over subprocesses, merges, classifies, writes evidence.

usage: python -m pwv.main C01 --tier quick|thorough     (VERIF_SEED, VERIF_TIER honoured)
       python -m pwv.main C01 --replay out/replays/C01-xxxx.json
exit 0: held on everything explored (known findings printed), 1: VIOLATION, 2: INCONCLUSIVE
"""
import argparse
import hashlib
import json
import os
import subprocess
import sys
import tempfile
import time

from pwv import env as _env
from pwv import findings

LEVEL = {"C17": "fault_enumeration"}

BUDGET = {"quick": 55, "thorough": 420}
MIN_EVALS = {"quick": 40, "thorough": 400}


def run_shards(prop, tier, seed, nshards, budget, extra_args=()):
    tmp = tempfile.mkdtemp(prefix=f"pwv-{prop}-", dir=os.path.join(_env.VERIF, "out"))
    procs = []
    envd = _env.child_env()
    for s in range(nshards):
        out = os.path.join(tmp, f"s{s}.json")
        cmd = [_env.PY, "-m", "pwv.worker", "--prop", prop, "--tier", tier, "--seed", str(seed), "--shard", str(s),
               "--nshards", str(nshards), "--budget", str(budget), "--out", out, *extra_args]
        log = open(os.path.join(tmp, f"s{s}.log"), "w")
        procs.append((s, out, subprocess.Popen(cmd, env=envd, cwd=_env.VERIF, stdout=log, stderr=subprocess.STDOUT), log))
    results, problems = [], []
    deadline = time.time() + budget * 3 + 240
    for s, out, p, log in procs:
        try:
            p.wait(timeout=max(5, deadline - time.time()))
        except subprocess.TimeoutExpired:
            p.kill()
            problems.append(f"shard {s}: watchdog")
        log.close()
        if os.path.exists(out):
            try:
                d = json.load(open(out))
                results.append(d)
                if d.get("error"):
                    problems.append(f"shard {s}: {d['error'].strip().splitlines()[-1]}")
            except Exception as e:  # noqa: BLE001
                problems.append(f"shard {s}: unreadable result {e}")
        else:
            tail = ""
            try:
                tail = open(os.path.join(tmp, f"s{s}.log")).read()[-400:]
            except Exception:
                pass
            problems.append(f"shard {s}: no result (rc={p.returncode}) {tail}")
    return results, problems, tmp


def merge(results):
    m = {"evaluations": 0, "cells": {}, "inconclusive": {}, "violations": {}, "samples": [], "handlers": {},
         "kinds": {}, "programs": 0, "steps": 0, "extra": {}}
    for d in results:
        m["evaluations"] += d["evaluations"]
        m["programs"] += d["programs"]
        m["steps"] += d["steps"]
        for k in ("cells", "inconclusive", "handlers", "kinds"):
            for a, b in d[k].items():
                m[k][a] = m[k].get(a, 0) + b
        for k, v in d.get("extra", {}).items():
            if isinstance(v, (int, float)):
                m["extra"][k] = m["extra"].get(k, 0) + v
            elif isinstance(v, list):
                m["extra"].setdefault(k, [])
                m["extra"][k] += v
            elif isinstance(v, dict):
                dd = m["extra"].setdefault(k, {})
                for a, b in v.items():
                    dd[a] = dd.get(a, 0) + b if isinstance(b, (int, float)) else b
        for v in d["violations"]:
            key = json.dumps([v["prop"], v["mode"], sorted((k, str(x)) for k, x in v["sig"].items())])
            e = m["violations"].get(key)
            if e is None:
                m["violations"][key] = dict(v)
            else:
                e["count"] += v["count"]
        for s in d["samples"]:
            if len(m["samples"]) < 4:
                m["samples"].append(s)
    m["violations"] = list(m["violations"].values())
    return m


def nontrivial(prop, cells):
    """count distinct non-trivial cells.  Default rule: a cell is trivial when its state class is 'label' (fresh
    product of basis labels) - the situation the unit tests already sample.  C13: trivial when no composite
    envelope exists yet; C20: trivial when the world has fewer than two storage blocks (no bystander)."""
    n = 0
    for c in cells:
        try:
            t = json.loads(c)
        except Exception:
            t = None
        if t is None:
            continue
        if isinstance(t, list) and "label" in t:
            continue
        if prop == "C13" and isinstance(t, list) and len(t) == 5 and t[-1] == 0:
            continue
        if prop == "C20" and isinstance(t, list) and len(t) == 6 and isinstance(t[3], int) and t[3] < 2:
            continue
        n += 1
    return n


RULES = {}


def cell_heads(cells, top=60):
    """judged events grouped by the leading two fields of their coverage cell (what kind of event the monitor saw)"""
    out = {}
    for c, n in cells.items():
        try:
            t = json.loads(c)
            h = " / ".join(str(x) for x in t[:2]) if isinstance(t, list) else str(t)
        except Exception:
            h = str(c)[:40]
        out[h] = out.get(h, 0) + n
    return dict(sorted(out.items(), key=lambda kv: -kv[1])[:top])


def write_evidence(prop, tier, seed, m, wall, unknown, hits, problems, status):
    from pwv import props
    evdir = os.environ.get("PWV_EVIDENCE_DIR") or os.path.join(_env.VERIF, "evidence")  # scratch runs (seeded defects) write elsewhere
    os.makedirs(evdir, exist_ok=True)
    conf = props.PROPS.get(prop, {})
    rule = conf.get("rule") or (
        "seeded random programs (profile %r) over worlds of 1-3 envelopes, 0-2 custom states and lone subsystems; every "
        "outermost public call is one monitored transition judged by this property's oracle; a case = one judged "
        "transition; cell = (call kind/operation, entry point, storage of the targets, representation level, state class, "
        "flags); a cell is non-trivial unless its state class is a fresh product of basis labels" % conf.get("profile"))
    ev = {
        "property_id": prop,
        "tier": tier,
        "seed": int(seed),
        "level": LEVEL.get(prop, "exploration"),
        "coverage": {
            "evaluations": int(m["evaluations"]),
            "distinct_nontrivial": int(nontrivial(prop, m["cells"])),
            "rule": rule,
            "samples": m["samples"][:4] or [{"note": "no sample recorded"}],
            "programs": int(m["programs"]),
            "steps_executed": int(m["steps"]),
            "distinct_cells": len(m["cells"]),
            "events_by_kind": m["kinds"],
            "judged_by_cell_head": cell_heads(m["cells"]),
            "inconclusive": m["inconclusive"],
            "handlers_reached": dict(sorted(m["handlers"].items(), key=lambda kv: -kv[1])[:60]),
            "known_finding_hits": {k: v[1] for k, v in hits.items()},
            "unlisted_violation_signatures": len(unknown),
            "extra": m["extra"],
            "status": status,
            "problems": problems[:10],
        },
        "assumptions": [
            "numpy/scipy reference simulator and operator library (pwv/ref.py, pwv/refops.py) are correct (self-checked at start-up against algebraic identities)",
            "observations are taken at the client boundary of outermost public calls; states inside a call are not judged",
            "JAX/XLA float64 numerics trusted to 1e-8",
        ],
        "wall_s": round(wall, 2),
        "violations": len(unknown),
    }
    ev.update(_env.repo_info())
    with open(os.path.join(evdir, f"{prop}.json"), "w") as f:
        json.dump(ev, f, indent=1, default=str)


def save_replay(prop, v):
    d = os.path.join(os.environ.get("PWV_OUT_DIR") or os.path.join(_env.VERIF, "out"), "replays")
    os.makedirs(d, exist_ok=True)
    blob = json.dumps({"mode": v["mode"], "sig": v["sig"], "detail": v["detail"], "replay": v["replay"]}, default=str, indent=0)
    h = hashlib.sha1(json.dumps([v["mode"], sorted((k, str(x)) for k, x in v["sig"].items())]).encode()).hexdigest()[:10]
    p = os.path.join(d, f"{prop}-{h}.json")
    with open(p, "w") as f:
        f.write(blob)
    return p


def main():
    ap = argparse.ArgumentParser()
    ap.add_argument("prop")
    ap.add_argument("--tier", default=os.environ.get("VERIF_TIER", "quick"))
    ap.add_argument("--seed", type=int, default=int(os.environ.get("VERIF_SEED", "0")))
    ap.add_argument("--shards", type=int, default=int(os.environ.get("PWV_SHARDS", "16")))
    ap.add_argument("--budget", type=float, default=None)
    ap.add_argument("--replay", default=None)
    ap.add_argument("--verbose", action="store_true")
    ap.add_argument("--warmup", action="store_true", help="run the workload only to fill the JAX cache; no evidence, exit 0")
    a = ap.parse_args()
    os.makedirs(os.path.join(_env.VERIF, "out"), exist_ok=True)
    if not _env.ensure_deps():
        print(f"INCONCLUSIVE property={a.prop} reason=cannot install icontract offline")
        sys.exit(2)
    if a.replay:
        envd = _env.child_env()
        r = subprocess.run([_env.PY, "-m", "pwv.replay", a.replay], env=envd, cwd=_env.VERIF)
        sys.exit(r.returncode)
    t0 = time.time()
    budget = a.budget or BUDGET[a.tier]
    results, problems, tmp = run_shards(a.prop, a.tier, a.seed, a.shards, budget)
    if a.warmup:
        import shutil
        shutil.rmtree(tmp, ignore_errors=True)
        sys.exit(0)
    m = merge(results)
    unknown, hits, open_findings = findings.classify(a.prop, m["violations"])
    wall = time.time() - t0
    status = "held"
    if unknown:
        status = "violated"
    elif m["evaluations"] < MIN_EVALS[a.tier] or len(results) < max(1, a.shards // 2):
        status = "inconclusive"
    write_evidence(a.prop, a.tier, a.seed, m, wall, unknown, hits, problems, status)
    print(f"[{a.prop}] tier={a.tier} seed={a.seed} shards={len(results)}/{a.shards} programs={m['programs']} "
          f"steps={m['steps']} judged={m['evaluations']} cells={len(m['cells'])} inconclusive={sum(m['inconclusive'].values())} "
          f"wall={wall:.0f}s")
    for p in problems[:8]:
        print(f"  note: {p}")
    for e in open_findings:
        n = hits.get(e["id"], [None, 0])[1]
        print(f"{e['line']} observed={n}")
    if a.verbose:
        for v in sorted(m["violations"], key=lambda v: -v["count"]):
            tag = "known" if v not in unknown else "NEW"
            print(f"  [{tag}] x{v['count']} {v['mode']} {v['sig']} :: {v['detail'][:160]}")
    if unknown:
        for v in sorted(unknown, key=lambda v: -v["count"])[:25]:
            p = save_replay(a.prop, v)
            print(f"VIOLATION property={a.prop} replay={os.path.relpath(p, _env.VERIF)} mode={v['mode']} x{v['count']} {json.dumps(v['sig'], default=str)} :: {v['detail'][:200]}")
        sys.exit(1)
    if status == "inconclusive":
        print(f"INCONCLUSIVE property={a.prop} reason=only {m['evaluations']} judged events from {len(results)} shards; {problems[:2]}")
        sys.exit(2)
    try:
        import shutil
        shutil.rmtree(tmp, ignore_errors=True)
    except Exception:
        pass
    sys.exit(0)


if __name__ == "__main__":
    main()
