"""Spec table: reference transition of every public call (DESIGN section 3)."""
import numpy as np

from pwv import ref, opspec, refops
from pwv.world import live, impl_dims, denote, Malformed
from pwv.run import rho_pre, rho_post, rec_dims

EXACT_TOL = 1e-8
APPROX_T = 3.2e-3  # trace distance bound corresponding to infidelity 1e-5
APPROX_LOSS = 1e-5
APPROX_LOSS_BAND = 1e-6

APPROX_TYPES = {("fock", "Displace"), ("fock", "Squeeze")}


class Invalid(Exception):
    """the request cannot be honoured (C17 domain), with reason"""


def support_max(diag, tol=1e-12):
    nz = np.nonzero(np.asarray(diag) > tol)[0]
    return int(nz[-1]) if len(nz) else 0


def is_approx(spec):
    if (spec["fam"], spec["type"]) in APPROX_TYPES:
        return True
    if spec["fam"] == "fock" and spec["type"] == "Expresion":
        return bool(spec.get("approx"))
    return False


def fock_support(rec, name):
    """highest occupied level of a Fock subsystem in the pre-state"""
    r, d = rho_pre(rec, [name])
    return support_max(np.real(np.diag(r)))


def apply_requirements(rec):
    """extra Fock dimension requirements of the reference for an apply step: {name: dim}, plus
    per-target operator dims policy"""
    step = rec.step
    spec = step["op"]
    w = rec.world
    need = {}
    fam, typ = spec["fam"], spec["type"]
    tg = step["targets"]
    if fam == "fock":
        t = tg[0]
        nmax = fock_support(rec, t)
        if typ == "Creation":
            need[t] = nmax + 2
        elif typ in ("Annihilation", "PhaseShift", "Identity"):
            need[t] = nmax + 1
        elif typ == "Custom":
            need[t] = int(spec["operator"]["shape"][0])
        elif typ in ("Displace", "Squeeze") or (typ == "Expresion" and spec.get("approx")):
            post = impl_dims(rec.post).get(t) or 0
            need[t] = max(post, nmax + 1) + 40
        elif typ == "Expresion":
            need[t] = nmax + 1
    elif fam == "comp":
        focks = [t for t in tg if w.kind(t) == "F"]
        if typ == "NonPolarizingBeamSplitter":
            tot = sum(fock_support(rec, t) for t in focks)
            for t in focks:
                need[t] = tot + 1
        else:
            for t in focks:
                need[t] = fock_support(rec, t) + 1
    return need


def embed(O, small, big):
    """embed operator on dims `small` (list) into dims `big` (O ⊕ 0 on the added levels)"""
    if list(small) == list(big):
        return O
    k = len(small)
    T = O.reshape(*small, *small)
    pads = [(0, b - s) for s, b in zip(small, big)] * 2
    T = np.pad(T, pads)
    n = int(np.prod(big))
    return T.reshape(n, n)


def expected_apply(rec):
    """returns dict(rho=expected joint state over live_pre order, dims, names, approx, lost) or raises Invalid"""
    step = rec.step
    spec = step["op"]
    w = rec.world
    tg = step["targets"]
    names = live(rec.pre)
    for t in tg:
        if t not in names:
            raise Invalid(f"target {t} destroyed")
    if len(set(tg)) != len(tg):
        raise Invalid("duplicate operands")
    need = apply_requirements(rec)
    r0, dims = rho_pre(rec, names, need)
    D = rec_dims(rec, need)
    axes = [names.index(t) for t in tg]
    tdims = [dims[a] for a in axes]
    approx = is_approx(spec)
    fam, typ = spec["fam"], spec["type"]
    if fam == "fock" and typ == "Custom":
        k = int(spec["operator"]["shape"][0])
        if fock_support(rec, tg[0]) >= k:
            raise Invalid("custom operator smaller than occupied levels")
        O = embed(opspec.ref_operator(spec, [k]), [k], tdims)
    elif approx:
        big = [d + 40 for d in tdims]
        Ob = opspec.ref_operator(spec, big)
        O = Ob.reshape(*big, *big)[tuple(slice(0, d) for d in tdims) * 2].reshape(int(np.prod(tdims)), -1)
    else:
        O = opspec.ref_operator(spec, tdims)
    O = np.asarray(O, complex)
    if O.shape != (int(np.prod(tdims)),) * 2:
        raise Invalid(f"operator shape {O.shape} does not fit targets {tdims}")
    r1 = ref.apply_local(r0, dims, [O], axes)
    tr = np.trace(r1).real
    if opspec.renormalises(spec):
        if tr < 1e-12:
            raise Invalid("operation annihilates the state")
        r1 = r1 / tr
    else:
        if tr < 1e-12:
            raise Invalid("operation annihilates the state")
    return {"rho": r1, "dims": dims, "names": names, "approx": approx, "need": need, "trace": tr}


def compare_states(a, b, approx=False):
    """-> (ok, err, measure)"""
    if a.shape != b.shape:
        return False, float("inf"), "shape"
    if not approx:
        e = ref.maxdiff(a, b)
        return e <= EXACT_TOL, e, "maxabs"
    h = a - b
    h = (h + h.conj().T) / 2
    try:
        ev = np.linalg.eigvalsh(h)
        T = 0.5 * float(np.sum(np.abs(ev)))
    except Exception:
        T = float("inf")
    anti = ref.maxdiff(a, a.conj().T)
    if anti > 1e-8:
        return False, anti, "nonhermitian"
    return T <= APPROX_T, T, "tracedist"


def measured_set(rec):
    """specified set of measured subsystems for a measure step (names, live ones only)"""
    step = rec.step
    w = rec.world
    via = step.get("via", "state")
    lv = live(rec.pre)
    S = list(step.get("targets", []))
    if via == "env" and not S:
        S = [step["env"] + ".f", step["env"] + ".p"]
    M = list(S)
    if not step.get("sep", False):
        for s in S:
            p = w.partner(s)
            if p and p not in M:
                M.append(p)
    return [m for m in M if m in lv]


def expected_measure(rec, outcomes):
    """state after projecting `outcomes` {name: int} (all of the measured set) on the pre-state.

    returns dict(rho over survivors, names, prob)"""
    step = rec.step
    w = rec.world
    names = live(rec.pre)
    r, dims = rho_pre(rec, names)
    p = 1.0
    for n, o in outcomes.items():
        a = names.index(n)
        if not (0 <= o < dims[a]):
            return {"rho": None, "prob": 0.0, "names": names, "dims": dims}
        r = ref.project(r, dims, a, o)
    p = float(np.trace(r).real)
    if p < 1e-12:
        return {"rho": None, "prob": p, "names": names, "dims": dims}
    r = r / p
    destr = step.get("destr", True)
    gone = [n for n in outcomes if destr and w.kind(n) in ("F", "P")]
    keep = [n for n in names if n not in gone]
    rk = ref.reduced(r, dims, [names.index(n) for n in keep])
    return {"rho": rk, "prob": p, "names": keep, "dims": [dims[names.index(n)] for n in keep], "gone": gone}


def expected_kraus(rec):
    step = rec.step
    names = live(rec.pre)
    tg = step["targets"]
    for t in tg:
        if t not in names:
            raise Invalid(f"target {t} destroyed")
    if len(set(tg)) != len(tg):
        raise Invalid("duplicate operands")
    r0, dims = rho_pre(rec, names)
    axes = [names.index(t) for t in tg]
    Ks = opspec.np_arrays(step["ops"])
    td = int(np.prod([dims[a] for a in axes]))
    for K in Ks:
        if K.shape != (td, td):
            raise Invalid("Kraus operator of the wrong size")
    S = sum(K.conj().T @ K for K in Ks)
    if not np.allclose(S, np.eye(td), atol=1e-6):
        raise Invalid("Kraus set not trace preserving")
    r1 = ref.apply_local(r0, dims, Ks, axes)
    return {"rho": r1, "dims": dims, "names": names}


def expected_povm(rec):
    """per-outcome probabilities and post states (over live_pre, before any destruction)"""
    step = rec.step
    names = live(rec.pre)
    tg = step["targets"]
    for t in tg:
        if t not in names:
            raise Invalid(f"target {t} destroyed")
    r0, dims = rho_pre(rec, names)
    axes = [names.index(t) for t in tg]
    Ms = opspec.np_arrays(step["ops"])
    td = int(np.prod([dims[a] for a in axes]))
    for M in Ms:
        if M.shape != (td, td):
            raise Invalid("POVM operator of the wrong size")
    probs, posts = [], []
    for M in Ms:
        r1 = ref.apply_local(r0, dims, [M], axes)
        p = float(np.trace(r1).real)
        probs.append(p)
        posts.append(r1 / p if p > 1e-12 else None)
    return {"probs": np.array(probs), "posts": posts, "dims": dims, "names": names}
