"""Registry: property id -> workload profile + oracles (program-based) or a dedicated driver."""
from pwv import oracles as O
from pwv import refops


def selfcheck():
    return refops.selfcheck()


def _dead_probe_hook(runner, rec, gen, rng):
    """C05 continuation: after a measurement, issue one request on each freshly destroyed subsystem (through the
    subsystem itself, its envelope or a handle of its composite)"""
    st = rec.step
    if st["k"] != "measure" or rec.exc is not None:
        return []
    from pwv.drivers_misc import dead_request
    from pwv.world import Malformed, TooBig
    out = []
    try:
        v = gen.view(runner)
    except (Malformed, TooBig):
        return []
    for n in rec.pre.order:
        if not rec.pre.subs[n]["measured"] and rec.post.subs[n]["measured"]:
            d = dead_request(gen, v, rng, n)
            d["dead_probe"] = True
            out.append(d)
    return out[:2]


def _lazy(mod, fn):
    def f(a, col):
        import importlib
        return getattr(importlib.import_module(mod), fn)(a, col)
    return f


def _hybrid(prop, conf_prog, mod, fn, frac=0.5):
    def drv(a, col):
        import importlib
        from pwv.worker import run_programs
        run_programs(prop, conf_prog, a.tier, a.seed, a.shard, a.nshards, a.budget * frac, col)
        getattr(importlib.import_module(mod), fn)(a, col, a.budget * (1 - frac))
    return drv


def _c17_conf():
    from pwv import oracles2 as O2
    from pwv.drivers_misc import c17_post_step, continuation_oracle
    return {"profile": "generic", "oracles": [O2.judge_c17, continuation_oracle()], "post_step": c17_post_step({}),
            "opts": {"approx_ops": False, "weak_prefix": 0.06, "weights": {"measure": 2.5}}}


def _c17_driver(a, col):
    from pwv.worker import run_programs
    run_programs("C17", _c17_conf(), a.tier, a.seed, a.shard, a.nshards, a.budget, col)


def _o2(name):
    def f(rec):
        from pwv import oracles2 as O2
        return getattr(O2, name)(rec)
    return f


def _c12_hybrid(a, col):
    from pwv import contracts
    from pwv.drivers_pure import c12_driver
    from pwv.worker import run_programs
    contracts.install(("ops",))
    full = a.budget
    a.budget = full * 0.55
    c12_driver(a, col)
    a.budget = full
    conf = {"profile": "ops", "oracles": [_o2("judge_c12_step")], "opts": {"approx_ops": True, "weights": {"applyc": 4}}}
    run_programs("C12", conf, a.tier, a.seed, a.shard, a.nshards, full * 0.45, col)
    col.extra["contract_evaluations"] = dict(contracts.COUNT)


def _c16_hybrid(a, col):
    from pwv import contracts
    from pwv.drivers_pure import c16_driver
    from pwv.worker import run_programs
    contracts.install(("interpreter",))
    full = a.budget
    a.budget = full * 0.6
    c16_driver(a, col)
    a.budget = full
    conf = {"profile": "ops", "oracles": [_o2("judge_c16_step"), _o2("judge_c16_effect")],
            "opts": {"approx_ops": False, "fock_types": ["Expresion"], "comp_types": ["Expression"], "op_reuse": 0.4,
                     "weights": {"applyc": 6, "apply1": 6}}}
    run_programs("C16", conf, a.tier, a.seed, a.shard, a.nshards, full * 0.4, col)
    col.extra["contract_evaluations"] = dict(contracts.COUNT)


_C08_PROG = {"profile": "levels", "oracles": [_o2("judge_c08")], "opts": {"approx_ops": False, "near_basis": True, "lifecycle": 0.15, "near_pure": 0.3, "near_pure_lo": -7.5}}
_C10_PROG = {"profile": "resize", "oracles": [_o2("judge_resize"), _o2("judge_truncation")],
             "opts": {"env_max": 2, "cus_max": 1, "weak_bs": 0.3, "weak_prefix": 0.15, "same_alpha": 0.1, "fock_types": ["Displace", "Squeeze", "Creation", "Annihilation", "PhaseShift", "Custom"]}}
_C11_PROG = {"profile": "optics", "oracles": [_o2("judge_c11")],
             "opts": {"approx_ops": False, "env_min": 2, "env_max": 4, "cus_max": 0, "p_lone": 0.0, "weak_bs": 0.1, "weak_prefix": 0.08,
                      "comp_types": ["NonPolarizingBeamSplitter", "NonPolarizingBeamSplitter", "Expression"],
                      "fock_types": ["PhaseShift", "PhaseShift", "Creation", "Identity"]}}
_C18_PROG = {"profile": "measure", "oracles": [lambda r: O.judge_measure(r, "C05")], "opts": {"p_label": 0.8, "approx_ops": False}}

PROPS = {
    "C08": {"driver": _hybrid("C08", _C08_PROG, "pwv.twin", "c08_twin", 0.45), "profile": "levels+twin", "replay_oracles": _C08_PROG["oracles"],
            "rule": "(a) every expand/contract call (explicit, at subsystem/envelope/composite entry) judged for: joint state unchanged, level lowered only for pure / exact basis states, mixed blocks bit-identical; (b) twin runs of the same generated program with contraction on / off / toggled at random steps, steered down the same measurement branch, compared after every step (joint state, exceptions, draw distributions); case = one judged call or one twin step comparison; cell = (call, entry, storage, level, purity class, flag) or (twin, step kind, entry, operation)"},
    "C10": {"driver": lambda a, col: __import__("pwv.worker", fromlist=["run_programs"]).run_programs("C10", _C10_PROG, a.tier, a.seed, a.shard, a.nshards, a.budget, col),
            "profile": "resize", "replay_oracles": _C10_PROG["oracles"],
            "rule": "resize(n) with n in 1..d+3 at subsystem/envelope/composite entry on label/vector/matrix, product and entangled states, judged for return value, dimension bookkeeping and unchanged joint state; every Fock operation judged for population of the ideal (cutoff+40 reference) result outside the automatically chosen dimension; cell = (resize|auto-dim, operation, entry, storage, level, relation of n to support / state class, phase octant)"},
    "C11": {"driver": _hybrid("C11", _C11_PROG, "pwv.drivers_misc", "c11_mzi", 0.7), "profile": "optics+mzi", "replay_oracles": _C11_PROG["oracles"],
            "rule": "beam splitters and phase shifters on random pairs of modes in random layouts (meshes of 2-4 modes, number/superposed/mixed inputs, modes entangled with polarization): total photon number distribution of the involved modes before/after, and equality with the SU(2) reference; Mach-Zehnder single-photon runs with phi in [-2pi,4pi] judged against sin^2/cos^2; cell = (optics, operation, entry, storage, level, state class) or (mzi, entry of the phase shifter, flag, angle class)"},
    "C14": {"driver": _lazy("pwv.drivers_misc", "c14_driver"), "profile": "seed-twin",
            "rule": "programs with projective and generalised measurements run with the real sampler: (a) twice in one process after re-seeding with unrelated activity in between, (b) in a fresh subprocess, comparing key sequence, drawn indices, outcomes and final joint state; (c) key hygiene of every draw (handed key fresh, never equal to a stored key, stored key advances); statistical guard on 256 repeated measurements; case = one comparison; cell = (comparison kind, number of draws class)"},
    "C15": {"driver": _lazy("pwv.twin", "c15_driver"), "profile": "op-reuse-twin",
            "rule": "twin runs of generated programs: one Operation object reused for all applications of the same description vs a fresh object per application vs unrelated operations (incl. expression composites with other operand types) constructed/applied between any two steps; per-step comparison of joint state and acceptance/rejection; requests that must be refused are made with already used operation objects (and as the very first use of an object) which are re-used afterwards; byte comparison of user supplied operator/Kraus/POVM arrays and of the caller's state_types list; cell = (twin, step kind, operation, reused|fresh)"},
    "C17": {"driver": _c17_driver, "profile": "fault-injection", "replay_oracles": [_o2("judge_c17")],
            "rule": "twelve kinds of invalid request (non trace preserving / wrong-size Kraus, wrong-size POVM and custom operators, wrong subsystem kind incl. operation objects of another family that were applied before, operand outside the envelope/composite, annihilating the vacuum, a custom operator whose kernel holds the whole support of the target, shrinking below occupied levels, destroyed subsystem, missing parameter, duplicate / too many operands) injected after random steps of valid programs at every entry point; judged: rejected (exception or documented failure value), joint state unchanged, object graph well formed, valid continuation judged by the transition oracles; cell = (fault kind, call, entry, storage, level)"},
    "C18": {"driver": _lazy("pwv.twin", "c18_twin"), "profile": "collide-twin",
            "rule": "metamorphic twins: a world whose subsystems hold numerically equal states vs (labels mode) the same world with distinct labels of the same kind and level - structure compared: exceptions, outcome key sets, live sets, storage partition, returned shapes - or (arrays mode) the same physical world with every vector given its own global phase - structure and joint state compared after every step; cell = (twin, mode, step kind, entry, #operands)"},
    "C12": {"driver": _c12_hybrid, "profile": "contract-sweep + in-situ", "replay_oracles": [_o2("judge_c12_step")],
            "rule": "contract on every operator constructor of photon_weave._math.ops and on Operation(...).operator, evaluated on a parameter sweep (angles in [-4pi, 6pi], complex alpha/zeta of any phase, cutoffs 1..24 quick / 1..40 thorough) against an independent numpy/scipy operator library plus algebraic identities; a case = one contract/identity evaluation; cell = (function, parameter class); every cell is non-trivial except none (no fresh-label notion here)"},
    "C16": {"driver": _c16_hybrid, "profile": "contract-trees + in-situ", "replay_oracles": [_o2("judge_c16_step"), _o2("judge_c16_effect")],
            "rule": "contract on photon_weave.extra.expression_interpreter.interpreter (every nested evaluation) comparing the value with an independent evaluator run on a pre-call deep copy, byte-comparing caller-owned array leaves and context results before/after, checking the dimension list handed to the context, and malformed head symbols; random trees over all seven commands with numeric/numpy/jax/context-name leaves; a case = one judged evaluation; cell = (head command, tree depth | check kind)"},
    "C19": {"driver": _lazy("pwv.drivers_pure", "c19_driver"), "profile": "contract-overlap",
            "rule": "contract on Envelope.overlap_integral against the closed-form Gaussian overlap, plus exchange symmetry; pulse widths log-uniform over 1e-15..10 s including the 42.45 fs default, centre offsets and delays 0..8 widths, both argument orders, repeated questions on the same two envelope objects after a profile was replaced / edited / restored; a case = one judged call; cell = (decade of the narrower width, equal/unequal widths, delay in widths)"},
    "C01": {"profile": "ops", "rule": "seeded online-generated programs (profile ops: worlds of 1-3 envelopes, 0-2 custom states, lone subsystems; 4-12 steps; preparation by composite gates, channels, measurements, combines, reorders) - every single-subsystem apply_operation is one case, judged against (O x I) rho (O x I)^dagger[/trace] on the joint state of all live subsystems; cell = (operation family.type, entry point, storage of the target, level, state class, contraction flag); trivial iff state class is a fresh product of basis labels",  "oracles": [lambda r: O.judge_apply(r, "C01")]},
    "C02": {"profile": "structure", "rule": "every combine / reorder / expand / contract / CompositeEnvelope(...) / trace_out call of generated programs (profile structure, incl. scripted multi-composite prefixes) is one case: joint state before = after; trace_out return value = partial trace in the requested order; cell = (call or trace_out-value, entry point, storage, level, state class, #arguments); trivial iff state class is a fresh product of basis labels",  "oracles": [O.judge_c02], "opts": {"multi_ce": 0.25, "lifecycle": 0.2}},
    "C03": {"profile": "composite", "rule": "every multi-operand apply_operation (CX, CZ, SWAP, CSWAP, beam splitter, expression over 2-3 operands of mixed kinds, operation objects reused on other operands) of generated programs is one case, judged on the joint state with the k-th tensor factor bound to the k-th operand; cell = (operation, entry point, storages, levels, state class, contraction, operands given out of canonical order?); trivial iff state class is a fresh product of basis labels",  "oracles": [lambda r: O.judge_apply(r, "C03")]},
    "C04": {"profile": "measure", "rule": "every measure call of generated programs is one case: each intercepted jax.random.choice draw (p, outcome set, key) is matched with a member of the specified measured set whose conditional reduced diagonal equals p; cell = (measure, entry point, storages, levels, state class, flags, kinds of the measured set); trivial iff state class is a fresh product of basis labels",  "oracles": [lambda r: O.judge_measure(r, "C04")], "free_mix": 0.25},
    "C05": {"profile": "measure", "oracles_extra": "continuation", "rule": "every measure call (branch chosen uniformly over the support by the steered sampler, or by the real sampler) is one case: outcome keys, fates of measured subsystems, collapsed joint state of the survivors; plus one dead probe per freshly destroyed subsystem; cell = (measure|dead-probe, entry point, storages, levels, state class, flags, kinds); trivial iff state class is a fresh product of basis labels",  "oracles": [lambda r: O.judge_measure(r, "C05"), O.judge_dead_probe],
            "post_step": _dead_probe_hook, "free_mix": 0.15},
    "C06": {"profile": "kraus", "rule": "every apply_kraus call of generated programs (identity, unitary, depolarising and Haar-dilation channels with 2-4 operators, 1-3 targets in any order) is one case judged against sum_i K_i rho K_i^dagger on the joint state, unit trace and the level rule; cell = (kraus, entry point, storages, levels, state class, #targets, #operators); trivial iff state class is a fresh product of basis labels",  "oracles": [O.judge_c06], "opts": {"weak_channels": 0.12}},
    "C07": {"profile": "invariants", "rule": "after every successful call of generated programs (all step kinds, contraction toggled) every live storage block is checked: label range, unit norm, hermiticity, PSD, unit trace, shape = product of member dimensions, tag = representation, members report the block level; case = one call; cell = (call, operation, entry point, storage, level, contraction flag); trivial iff the addressed block is at label level",  "oracles": [O.judge_c07], "opts": {"multi_ce": 0.15, "lifecycle": 0.15}},
    "C09": {"profile": "povm", "rule": "every measure_POVM call (computational, rotated projective and non-projective complete sets, 1-2 targets, destructive or not) is one case: draw distribution, returned outcome, fates, post state of the survivors; cell = (povm, entry point, storages, levels, state class, flags, kinds, operator-set kind); trivial iff state class is a fresh product of basis labels",  "oracles": [O.judge_c09], "free_mix": 0.2},
    "C13": {"profile": "graph", "rule": "after every call (successful or not) of generated programs (profile graph: constructions, merges incl. handles sharing a container and chains, scripted multi-composite and envelope life-cycle prefixes, combines, reorders, measurements) the bookkeeping predicates are evaluated on the whole object graph, unrelated composites are bit-compared, and after bookkeeping calls every subsystem reduced state is re-read through its indices; case = one call; cell = (call, entry point, storage, raised?, #composite handles); trivial iff no composite envelope exists yet",  "oracles": [O.judge_c13], "opts": {"env_max": 4, "multi_ce": 0.5, "lifecycle": 0.2}},
    "C20": {"profile": "blocks", "rule": "after every action of generated programs the partition into storage blocks is compared before/after: bystander blocks identical (members, order, level, bytes), no bystander merged in, single-subsystem actions do not enlarge a block, multi-operand actions join their operands, merged blocks are dissolved, measured subsystems leave their block; case = one call; cell = (call, entry point, storage, #blocks before, #addressed, raised?); trivial iff fewer than two blocks exist (no bystander)",  "oracles": [O.judge_c20], "opts": {"multi_ce": 0.25, "lifecycle": 0.25}},
}
