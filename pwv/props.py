"""Registry: property id -> workload profile + oracles (program-based) or a dedicated driver."""
from pwv import oracles as O
from pwv import refops


def selfcheck():
    return refops.selfcheck()


def _dead_probe_hook(runner, rec, gen, rng):
    """C05 continuation: after a measurement, issue one request on each freshly destroyed subsystem"""
    st = rec.step
    if st["k"] != "measure" or rec.exc is not None:
        return []
    out = []
    w = rec.world
    for n in rec.pre.order:
        if not rec.pre.subs[n]["measured"] and rec.post.subs[n]["measured"]:
            kind = w.kind(n)
            x = rng.random()
            if x < 0.4:
                op = gen.pol_op() if kind == "P" else {"fam": "fock", "type": gen.ch(["Creation", "PhaseShift", "Identity"]), "phi": 0.3}
                if kind == "F" and op["type"] != "PhaseShift":
                    op.pop("phi", None)
                out.append({"k": "apply", "via": "state", "targets": [n], "op": op, "dead_probe": True})
            elif x < 0.7:
                out.append({"k": "measure", "via": "state", "targets": [n], "dead_probe": True})
            else:
                import numpy as np
                from pwv.world import c2j
                d = 2 if kind == "P" else max(2, rec.pre.subs[n]["dims"] if rec.pre.subs[n]["dims"] and rec.pre.subs[n]["dims"] > 0 else 2)
                out.append({"k": "kraus", "via": "state", "targets": [n], "ops": [c2j(np.eye(d))], "dead_probe": True})
    return out[:2]


PROPS = {
    "C01": {"profile": "ops", "oracles": [lambda r: O.judge_apply(r, "C01")]},
    "C02": {"profile": "structure", "oracles": [O.judge_c02]},
    "C03": {"profile": "composite", "oracles": [lambda r: O.judge_apply(r, "C03")]},
    "C04": {"profile": "measure", "oracles": [lambda r: O.judge_measure(r, "C04")]},
    "C05": {"profile": "measure", "oracles": [lambda r: O.judge_measure(r, "C05"), O.judge_dead_probe],
            "post_step": _dead_probe_hook},
    "C06": {"profile": "kraus", "oracles": [O.judge_c06]},
    "C07": {"profile": "invariants", "oracles": [O.judge_c07]},
    "C09": {"profile": "povm", "oracles": [O.judge_c09]},
    "C13": {"profile": "graph", "oracles": [O.judge_c13], "opts": {"env_max": 4}},
    "C20": {"profile": "blocks", "oracles": [O.judge_c20]},
}
