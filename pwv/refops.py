"""Independent operator library (numpy + scipy.linalg.expm) and expression evaluator.

Conventions are pinned to the definition sites of photon_weave (see DESIGN section 4/C12).
"""
import copy
import math

import numpy as np
from scipy.linalg import expm as sp_expm

I2 = np.eye(2, dtype=complex)
SX = np.array([[0, 1], [1, 0]], complex)
SY = np.array([[0, -1j], [1j, 0]], complex)
SZ = np.array([[1, 0], [0, -1]], complex)
P0 = np.array([[1, 0], [0, 0]], complex)
P1 = np.array([[0, 0], [0, 1]], complex)


def kron(*ms):
    out = np.array([[1.0 + 0j]])
    for m in ms:
        out = np.kron(out, m)
    return out


def rot(sigma, theta):
    return math.cos(theta / 2) * I2 - 1j * math.sin(theta / 2) * sigma


def pol_op(name, **kw):
    if name == "I":
        return I2.copy()
    if name == "X":
        return SX.copy()
    if name == "Y":
        return SY.copy()
    if name == "Z":
        return SZ.copy()
    if name == "H":
        return (SX + SZ) / math.sqrt(2)
    if name == "S":
        return np.diag([1, 1j]).astype(complex)
    if name == "T":
        return np.diag([1, np.exp(1j * math.pi / 4)]).astype(complex)
    if name == "SX":
        # principal square root of X
        return 0.5 * np.array([[1 + 1j, 1 - 1j], [1 - 1j, 1 + 1j]])
    if name == "RX":
        return rot(SX, kw["theta"])
    if name == "RY":
        return rot(SY, kw["theta"])
    if name == "RZ":
        return rot(SZ, kw["theta"])
    if name == "U3":
        phi, theta, omega = kw["phi"], kw["theta"], kw["omega"]
        c, s = math.cos(theta / 2), math.sin(theta / 2)
        return np.array(
            [[c, -np.exp(1j * omega) * s], [np.exp(1j * phi) * s, np.exp(1j * (phi + omega)) * c]], complex
        )
    raise KeyError(name)


def destroy(d):
    a = np.zeros((d, d), complex)
    for n in range(1, d):
        a[n - 1, n] = math.sqrt(n)
    return a


def create(d):
    return destroy(d).conj().T


def number(d):
    return np.diag(np.arange(d)).astype(complex)


def phase(d, phi):
    return np.diag(np.exp(1j * phi * np.arange(d)))


def displace(d, alpha):
    a = destroy(d)
    return sp_expm(alpha * a.conj().T - np.conj(alpha) * a)


def squeeze(d, zeta):
    a = destroy(d)
    ad = a.conj().T
    return sp_expm(0.5 * (np.conj(zeta) * a @ a - zeta * ad @ ad))


def beamsplitter(d1, d2, eta):
    a, b = destroy(d1), destroy(d2)
    G = np.kron(a.conj().T, b) + np.kron(a, b.conj().T)
    return sp_expm(1j * eta * G)


def cnot():
    return np.kron(P0, I2) + np.kron(P1, SX)


def cz():
    return np.kron(P0, I2) + np.kron(P1, SZ)


def swap():
    S = np.zeros((4, 4), complex)
    for i in range(2):
        for j in range(2):
            S[2 * j + i, 2 * i + j] = 1
    return S


def cswap():
    return np.kron(P0, np.eye(4)) + np.kron(P1, swap())


def coherent_amplitudes(alpha, d):
    """<n|alpha> for n<d (exact)"""
    out = np.zeros(d, complex)
    for n in range(d):
        out[n] = np.exp(-abs(alpha) ** 2 / 2) * alpha ** n / math.sqrt(math.factorial(n))
    return out


def squeezed_vacuum_amplitudes(zeta, d):
    """<n|S(zeta)|0> for n<d, S = exp(0.5(zeta* a^2 - zeta a^dag^2))"""
    r, th = abs(zeta), np.angle(zeta)
    out = np.zeros(d, complex)
    for m in range((d + 1) // 2):
        n = 2 * m
        if n >= d:
            break
        out[n] = (
            (1 / math.sqrt(math.cosh(r)))
            * ((-np.exp(1j * th) * math.tanh(r)) ** m)
            * math.sqrt(math.factorial(2 * m))
            / (2 ** m * math.factorial(m))
        )
    return out


# --------------------------------------------------------------------------- expression evaluator


def _val(x):
    if isinstance(x, (int, float, complex, np.number)):
        return x
    return np.array(x, dtype=complex)


def evaluate(expr, context, dims):
    """Independent evaluator of the tuple language. Never mutates its inputs."""
    if isinstance(expr, tuple):
        if len(expr) == 0:
            raise ValueError("empty expression")
        op, *args = expr
        if not isinstance(op, str):
            raise ValueError(f"unknown command {op!r}")
        if op == "add":
            vals = [evaluate(a, context, dims) for a in args]
            r = _val(vals[0])
            for v in vals[1:]:
                r = r + _val(v)
            return r
        if op == "sub":
            return _val(evaluate(args[0], context, dims)) - _val(evaluate(args[1], context, dims))
        if op == "s_mult":
            vals = [evaluate(a, context, dims) for a in args]
            r = _val(vals[0])
            for v in vals[1:]:
                r = r * _val(v)
            return r
        if op == "m_mult":
            vals = [evaluate(a, context, dims) for a in args]
            r = _val(vals[0])
            for v in vals[1:]:
                r = r @ _val(v)
            return r
        if op == "kron":
            vals = [evaluate(a, context, dims) for a in args]
            r = _val(vals[0])
            for v in vals[1:]:
                r = np.kron(r, _val(v))
            return r
        if op == "expm":
            return sp_expm(np.array(evaluate(args[0], context, dims), dtype=complex))
        if op == "div":
            return _val(evaluate(args[0], context, dims)) / _val(evaluate(args[1], context, dims))
        raise ValueError(f"unknown command {op!r}")
    if isinstance(expr, str):
        return np.array(context[expr](list(dims)), dtype=complex)
    if hasattr(expr, "shape"):
        return np.array(expr, dtype=complex)
    return copy.copy(expr)


# --------------------------------------------------------------------------- self checks


def selfcheck():
    """cheap algebraic identities; a broken reference must fail loudly"""
    errs = []

    def chk(name, ok):
        if not ok:
            errs.append(name)

    for th in (0.3, -1.1, 7.0):
        for nm, sg in (("RX", SX), ("RY", SY), ("RZ", SZ)):
            U = pol_op(nm, theta=th)
            chk(nm + "-unitary", np.allclose(U @ U.conj().T, I2))
            chk(nm + "-expm", np.allclose(U, sp_expm(-1j * th / 2 * sg)))
    chk("SX2", np.allclose(pol_op("SX") @ pol_op("SX"), SX))
    chk("H2", np.allclose(pol_op("H") @ pol_op("H"), I2))
    chk("cnot", np.allclose(cnot() @ np.array([0, 0, 1, 0]), np.array([0, 0, 0, 1])))
    chk("swap", np.allclose(swap() @ np.kron([1, 0], [0, 1]), np.kron([0, 1], [1, 0])))
    chk("cswap", np.allclose(cswap() @ kron([0, 1], [1, 0], [0, 1]).ravel(), kron([0, 1], [0, 1], [1, 0]).ravel()))
    d = 30
    a, ad = destroy(d), create(d)
    comm = a @ ad - ad @ a
    chk("comm", np.allclose(comm[: d - 1, : d - 1], np.eye(d - 1)))
    al = 0.7 - 0.4j
    chk("coh", np.allclose(displace(60, al)[:12, 0], coherent_amplitudes(al, 12), atol=1e-10))
    z = 0.5 * np.exp(0.9j)
    chk("sqz", np.allclose(squeeze(80, z)[:12, 0], squeezed_vacuum_amplitudes(z, 12), atol=1e-10))
    B = beamsplitter(3, 3, 0.4)
    N = np.kron(number(3), np.eye(3)) + np.kron(np.eye(3), number(3))
    chk("bs-commutes-N", np.allclose(B @ N, N @ B))
    v = evaluate(("add", ("kron", SX, SZ), ("s_mult", 2, np.eye(4))), {}, [])
    chk("expr", np.allclose(v, np.kron(SX, SZ) + 2 * np.eye(4)))
    return errs
