"""Seeded online program generator.

The generator looks at the current snapshot (dimensions, liveness, storage) to emit only requests
that the documentation defines; every emitted step is plain JSON so a program can be replayed.
"""
import math

import numpy as np

from pwv import ref, refops
from pwv.world import c2j, live, impl_dims, blocks, Malformed, denote, storage_of

POL_FIXED = ["I", "X", "Y", "Z", "H", "S", "T", "SX"]
POL_ROT = ["RX", "RY", "RZ"]

DEFAULT_W = {
    "apply1": 4, "applyc": 2, "kraus": 1.5, "measure": 1.5, "povm": 1, "combine": 1.2, "reorder": 1,
    "expand": 0.8, "contract": 0.6, "trace_out": 0.8, "resize": 0.6, "config": 0.4, "composite": 0.6,
}

PROFILES = {
    "generic": {},
    "ops": {"apply1": 10, "applyc": 2, "measure": 0.7, "povm": 0.4},
    "composite": {"applyc": 10, "apply1": 2, "combine": 2, "reorder": 2},
    "structure": {"combine": 5, "reorder": 5, "expand": 3, "contract": 2, "trace_out": 5, "composite": 2,
                  "apply1": 2, "applyc": 1.5, "measure": 0.5, "povm": 0.3, "kraus": 0.7},
    "measure": {"measure": 8, "apply1": 3, "applyc": 2, "povm": 0.3, "kraus": 1},
    "kraus": {"kraus": 9, "apply1": 2.5, "applyc": 2, "measure": 0.6, "povm": 0.3},
    "povm": {"povm": 8, "apply1": 3, "applyc": 2, "measure": 0.5, "kraus": 1},
    "invariants": {"resize": 1.6, "reorder": 1.5, "expand": 1.2, "contract": 1.0, "trace_out": 1.0, "combine": 1.5},
    "graph": {"composite": 3, "combine": 4, "reorder": 3, "measure": 3, "povm": 2.5, "apply1": 2, "applyc": 2,
              "kraus": 1, "trace_out": 1},
    "blocks": {"apply1": 4, "applyc": 3, "kraus": 2, "measure": 2, "povm": 1.5, "combine": 3, "reorder": 2,
               "trace_out": 2, "resize": 1.5, "expand": 1.5},
    "resize": {"resize": 8, "apply1": 3, "applyc": 1, "combine": 2, "kraus": 1, "measure": 0.4, "povm": 0.2},
    "optics": {"applyc": 6, "apply1": 5, "measure": 1, "combine": 1, "povm": 0.1, "kraus": 0.5},
    "levels": {"expand": 6, "contract": 6, "apply1": 3, "applyc": 2, "kraus": 2, "combine": 2, "config": 1.5,
               "measure": 0.6, "povm": 0.4},
}


class Gen:
    def __init__(self, rng, profile="generic", tier="quick", opts=None):
        self.rng = rng
        self.profile = profile
        self.tier = tier
        self.opts = opts or {}
        w = dict(DEFAULT_W)
        w.update(PROFILES.get(profile, {}))
        w.update(self.opts.get("weights", {}))
        self.w = w
        self.nops = 0
        self.focus = set()
        self.maxdim = self.opts.get("maxdim", 600 if tier == "quick" else 2000)
        if tier == "thorough":
            # wider worlds on the thorough tier
            self.opts = dict(self.opts)
            self.opts["env_max"] = self.opts.get("env_max", 3) + 1
            self.opts["cus_max"] = max(self.opts.get("cus_max", 2), 2) + (1 if self.opts.get("cus_max", 2) > 0 else 0)

    # ------------------------------------------------------------------ random pieces
    def ch(self, seq):
        return seq[int(self.rng.integers(0, len(seq)))]

    def p(self, x):
        return self.rng.random() < x

    def pick_sub(self, seq):
        """choose a subsystem, with temporal locality: 40 % of the time one that the previous step touched
        (or its envelope partner) - dependent multi-step histories on the same objects are where layout bugs hide"""
        foc = [n for n in seq if n in self.focus]
        if foc and self.rng.random() < 0.4:
            return foc[int(self.rng.integers(0, len(foc)))]
        return seq[int(self.rng.integers(0, len(seq)))]

    def angle(self):
        r = self.rng.random()
        if r < 0.15:
            return float(self.ch([math.pi, math.pi / 2, -math.pi / 2, 2 * math.pi, math.pi / 4]))
        return float(self.rng.uniform(-2 * math.pi, 4 * math.pi))

    def local_init(self, kind, d=None):
        """initial local state JSON for a subsystem of kind F/P/X"""
        r = self.rng
        lab = self.opts.get("p_label", 0.4)
        vec = self.opts.get("p_vec", 0.35)
        x = r.random()
        if kind == "P":
            if x < lab:
                return {"k": "label", "l": self.ch(["H", "V", "R", "L"])}
            if x < lab + vec:
                return {"k": "vec", "v": c2j(self.vec(2))}
            return {"k": "mat", "m": c2j(self.mixed(2))}
        if kind == "F":
            if d is None and self.p(self.opts.get("tall_fock", 0.06)):
                # a tall mode: photon numbers / cutoffs of two digits are rare in the other branches
                if self.p(0.5):
                    n = int(r.integers(4, 10))
                    return {"k": "label", "n": n, "dims": None if self.p(0.4) else int(n + 1 + r.integers(0, 3))}
                dd = int(r.integers(6, 12))
                v = np.zeros(dd, complex)
                idx = r.choice(dd, size=int(r.integers(2, 4)), replace=False)
                v[idx] = ref.haar_vec(r, len(idx))
                return {"k": "vec", "dims": dd, "v": c2j(v)}
            if x < lab:
                n = int(r.integers(0, 3))
                dims = None if self.p(0.4) else int(n + 1 + r.integers(0, 3))
                return {"k": "label", "n": n, "dims": dims}
            d = d or int(r.integers(2, 5))
            if x < lab + vec:
                return {"k": "vec", "dims": d, "v": c2j(self.vec(d))}
            return {"k": "mat", "dims": d, "m": c2j(self.mixed(d))}
        if x < lab:
            return {"k": "label", "n": int(r.integers(0, d))}
        if x < lab + vec:
            return {"k": "vec", "v": c2j(self.vec(d))}
        return {"k": "mat", "m": c2j(self.mixed(d))}

    def vec(self, d):
        r = self.rng
        x = r.random()
        if x > 0.9 and self.opts.get("near_basis", False):
            # a pure state a small rotation away from a basis state: it must NOT be taken for the basis state
            v = ref.haar_vec(r, d) * float(10 ** r.uniform(-4, -2.5))
            v[int(r.integers(0, d))] += 1.0
            return v / np.linalg.norm(v)
        if x < 0.15:
            # real amplitudes with a negative sign (amplitude sums vanish)
            v = np.ones(d) * r.choice([1, -1], size=d)
            if d >= 2:
                v[0], v[1] = 1, -1
            return v / np.linalg.norm(v)
        if x < 0.25:
            v = np.zeros(d, complex)
            idx = r.choice(d, size=min(2, d), replace=False)
            v[idx] = ref.haar_vec(r, len(idx))
            return v
        return ref.haar_vec(r, d)

    def mixed(self, d):
        r = self.rng
        x = r.random()
        if d >= 2 and self.opts.get("near_pure") and r.random() < self.opts["near_pure"]:
            # nearly pure: purity deficit ~ 2 eps, far above the default contraction tolerance (1e-6) but inside
            # the tolerances a caller may pass to contract(tol=...)
            U = ref.haar_unitary(r, d)
            lo = self.opts.get("near_pure_lo", -4)
            eps = float(10 ** r.uniform(lo, -2.7))
            if lo < -6 and r.random() < 0.35:
                eps = float(10 ** r.uniform(-6.6, -5.0))  # around the default purity tolerance
            ev = np.zeros(d)
            ev[0], ev[1] = 1 - eps, eps
            return (U * ev) @ U.conj().T
        if r.random() < self.opts.get("pure_mat", 0.15):
            # a pure state held as a density matrix (what expand() leaves behind): any over-eager contraction of a
            # block nobody addressed shows as a changed representation
            v = ref.haar_vec(r, d)
            if r.random() < 0.3:
                v = np.zeros(d, complex)
                v[int(r.integers(0, d))] = 1.0
            return np.outer(v, v.conj())
        if x < 0.2 and d >= 2:
            # degenerate spectrum, rank 2
            U = ref.haar_unitary(r, d)
            ev = np.zeros(d)
            ev[:2] = 0.5
            return (U * ev) @ U.conj().T
        if x < 0.35:
            # diagonal mixture
            pr = r.random(d) + 0.05
            pr /= pr.sum()
            return np.diag(pr).astype(complex)
        return ref.random_mixed(r, d)

    # ------------------------------------------------------------------ world
    def decl(self):
        r = self.rng
        o = self.opts
        nenv = int(r.integers(o.get("env_min", 1), o.get("env_max", 3) + 1))
        ncus = int(r.integers(0, o.get("cus_max", 2) + 1))
        decl = []
        for i in range(nenv):
            decl.append({"t": "env", "name": f"E{i}", "fock": self.local_init("F"), "pol": self.local_init("P")})
            if self.p(0.2):
                decl[-1]["parts"] = True
                decl[-1]["wavelength"] = float(self.ch([780.0, 1310.0, 1550.0]))
        for i in range(ncus):
            d = int(r.integers(2, 4))
            decl.append({"t": "custom", "name": f"X{i}", "d": d, "init": self.local_init("X", d)})
        if self.p(o.get("p_lone", 0.25)):
            decl.append({"t": "fock", "name": "F0", "init": self.local_init("F")})
        if self.p(o.get("p_lone", 0.25)):
            decl.append({"t": "pol", "name": "P0", "init": self.local_init("P")})
        if self.p(o.get("collide", 0.12)):
            # colliding values: every mode holds the same state, every polarization the same state (distinct objects,
            # numerically equal contents - labels most of the time, since the library compares those by value)
            fi = self.local_init("F") if self.p(0.3) else {"k": "label", "n": int(r.integers(0, 3)), "dims": None}
            pi = self.local_init("P") if self.p(0.3) else {"k": "label", "l": self.ch(["H", "V", "R", "L"])}
            for it in decl:
                if it["t"] == "env":
                    it["fock"], it["pol"] = dict(fi), dict(pi)
                elif it["t"] == "fock":
                    it["init"] = dict(fi)
                elif it["t"] == "pol":
                    it["init"] = dict(pi)
        return decl

    # ------------------------------------------------------------------ views of the current world
    def view(self, runner):
        w = runner.world
        sn = runner.records[-1].post if runner.records else None
        from pwv.world import snapshot
        sn = snapshot(w)
        v = {"sn": sn, "w": w}
        v["live"] = live(sn)
        v["dims"] = impl_dims(sn)
        # composite membership by construction (program knowledge)
        v["member_of"] = dict(getattr(w, "member_of", {}))  # subsystem -> group id
        v["handles"] = {}  # group id -> handle names
        for h, g in getattr(w, "merge_group", {}).items():
            v["handles"].setdefault(g, []).append(h)
        v["env_ok"] = {e: not sn.envs[e]["measured"] for e in w.envs}
        try:
            v["joint"] = int(np.prod([d for d in v["dims"].values() if d]))
        except Exception:
            v["joint"] = 1
        return v

    def vias(self, v, names, allow_state=True):
        """possible entry points for a call addressing `names` (list of subsystem names)"""
        w = v["w"]
        out = []
        if allow_state and len(names) == 1:
            out.append({"via": "state"})
        envs = {w.env_of(n) for n in names}
        if len(envs) == 1 and None not in envs:
            e = next(iter(envs))
            if v["env_ok"].get(e):
                out.append({"via": "env", "env": e})
        gs = {v["member_of"].get(n) for n in names}
        if len(gs) == 1 and None not in gs:
            g = next(iter(gs))
            for h in v["handles"].get(g, [])[:3]:
                out.append({"via": "ce", "ce": h})
        return out

    def pick_via(self, v, names, prefer=None, allow_state=True):
        vs = self.vias(v, names, allow_state)
        if not vs:
            return None
        if prefer:
            pv = [x for x in vs if x["via"] == prefer]
            if pv and self.p(0.7):
                return self.ch(pv)
        return self.ch(vs)

    def support(self, v, name):
        try:
            r, d = denote(v["sn"], [name])
            diag = np.real(np.diag(r))
            nz = np.nonzero(diag > 1e-12)[0]
            if not len(nz) or not np.all(np.isfinite(diag)):
                return None, None
            return int(nz[-1]), diag
        except Malformed:
            return None, None

    # ------------------------------------------------------------------ operations
    def unitary(self, d):
        return ref.haar_unitary(self.rng, d)

    def nonunitary(self, d):
        r = self.rng
        A = r.standard_normal((d, d)) + 1j * r.standard_normal((d, d))
        return A / np.linalg.norm(A, 2)

    def unit_phase(self):
        """e^{i phi}: exactly on an axis (real positive / negative, imaginary) a third of the time"""
        if self.p(0.33):
            return complex(self.ch([1, -1, 1j, -1j]))
        return complex(np.exp(1j * self.rng.uniform(0, 2 * math.pi)))

    def fock_op(self, v, name):
        """JSON op spec for a Fock operation that is a valid request on the current state"""
        r = self.rng
        nmax, diag = self.support(v, name)
        if nmax is None:
            return None
        small = len(v["live"]) <= 3 and v["joint"] <= 64
        choices = ["Creation", "PhaseShift", "Identity", "Custom", "Expresion"]
        if diag[1:].sum() > 1e-3:
            choices.append("Annihilation")
        if small and self.opts.get("approx_ops", True):
            choices += ["Displace", "Squeeze"]
        focus = self.opts.get("fock_types")
        if focus:
            choices = [c for c in choices if c in focus] or choices
        t = self.ch(choices)
        spec = {"fam": "fock", "type": t}
        if t == "PhaseShift":
            spec["phi"] = self.angle()
        elif t == "Displace":
            a = r.uniform(0.1, 1.6) * self.unit_phase()
            spec["alpha"] = [float(a.real), float(a.imag)]
        elif t == "Squeeze":
            z = r.uniform(0.05, 0.6) * self.unit_phase()
            spec["zeta"] = [float(z.real), float(z.imag)]
        elif t == "Custom":
            d = v["dims"][name]
            # never ask for an implicit shrink: whether levels holding only rounding dust may be cut is the
            # library's call (exact-zero test) and a refused shrink legitimately fails the operation
            k = max(nmax + 1, d + int(r.integers(0, 2)))
            k = max(k, 2)
            spec["operator"] = c2j(self.unitary(k))
        elif t == "Expresion":
            if small and self.opts.get("approx_ops", True) and r.random() < 0.35:
                # displacement written as an expression: exp(alpha a^dag - alpha* a); needs a bigger cutoff
                a = r.uniform(0.1, 1.2) * np.exp(1j * r.uniform(0, 2 * math.pi))
                spec["expr"] = ["expm", ["sub", ["s_mult", {"num": [float(a.real), float(a.imag)]}, "adag"],
                                          ["s_mult", {"num": [float(a.real), float(-a.imag)]}, "a"]]]
                spec["context"] = {"a": {"f": "destroy", "i": 0}, "adag": {"f": "create", "i": 0}}
                spec["approx"] = True
            else:
                phi = self.angle()
                spec["expr"] = ["expm", ["s_mult", {"num": [0.0, 1.0]}, {"num": phi}, "n"]]
                spec["context"] = {"n": {"f": "number", "i": 0}}
        return spec

    def pol_op(self):
        r = self.rng
        x = r.random()
        if x < 0.4:
            return {"fam": "pol", "type": self.ch(POL_FIXED)}
        if x < 0.7:
            return {"fam": "pol", "type": self.ch(POL_ROT), "theta": self.angle()}
        if x < 0.85:
            return {"fam": "pol", "type": "U3", "phi": self.angle(), "theta": self.angle(), "omega": self.angle()}
        if x < 0.93:
            return {"fam": "pol", "type": "Custom", "operator": c2j(self.unitary(2))}
        return {"fam": "pol", "type": "Custom", "operator": c2j(self.nonunitary(2)), "nonunitary": True}

    def custom_op(self, d):
        r = self.rng
        x = r.random()
        if x < 0.45:
            return {"fam": "custom", "type": "Custom", "operator": c2j(self.unitary(d))}
        if x < 0.6:
            return {"fam": "custom", "type": "Custom", "operator": c2j(self.nonunitary(d)), "nonunitary": True}
        if x < 0.8:
            # expression with caller-owned numpy array leaves and a context array the caller keeps
            A1 = (r.standard_normal((d, d)) + 1j * r.standard_normal((d, d))) / 2
            A2 = (r.standard_normal((d, d)) + 1j * r.standard_normal((d, d))) / 2
            return {
                "fam": "custom", "type": "Expresion", "nonunitary": True,
                "expr": ["m_mult", {"np": c2j(self.unitary(d))}, ["add", {"np": c2j(A1)}, "K", {"np": c2j(A2)}],
                         ["s_mult", {"np": c2j(np.eye(d))}, {"num": 0.5}]],
                "context": {"K": {"f": "const", "m": c2j(np.eye(d) * 1.5), "held": True}},
            }
        if x < 0.9:
            # expression written through dims[0] (number / ladder operators of the target's own size): the same
            # operation object fits custom states of any dimension
            return {
                "fam": "custom", "type": "Expresion", "adaptive": True,
                "expr": ["m_mult", ["expm", ["s_mult", {"num": [0.0, float(r.uniform(0.2, 2.5))]}, "n"]],
                         ["expm", ["s_mult", {"num": [0.0, float(r.uniform(0.2, 1.2))]}, ["add", "a", "ad"]]]],
                "context": {"n": {"f": "number", "i": 0}, "a": {"f": "destroy", "i": 0}, "ad": {"f": "create", "i": 0}},
            }
        # expression: exp(i (A + A^dag)) with non-commuting pieces
        A = r.standard_normal((d, d)) + 1j * r.standard_normal((d, d))
        Hm = (A + A.conj().T) / 2
        B = self.unitary(d)
        return {
            "fam": "custom", "type": "Expresion",
            "expr": ["m_mult", "B", ["expm", ["s_mult", {"num": [0.0, 1.0]}, "H"]]],
            "context": {"H": {"f": "const", "m": c2j(Hm)}, "B": {"f": "const", "m": c2j(B)}},
        }

    def step_apply1(self, v):
        lv = v["live"]
        if not lv:
            return None
        if self.opts.get("no_fock_ops"):
            lv = [n for n in lv if v["w"].kind(n) != "F"]
            if not lv:
                return None
        name = self.pick_sub(lv)
        kind = v["w"].kind(name)
        if kind == "F":
            op = self.fock_op(v, name)
        elif kind == "P":
            op = self.pol_op()
        else:
            op = self.custom_op(v["dims"][name])
        if op is None:
            return None
        via = self.pick_via(v, [name], self.opts.get("prefer_via"))
        if kind == "X" and via["via"] == "env":
            return None
        st = {"k": "apply", "op": op, "targets": [name]}
        st.update(via)
        return st

    def step_applyc(self, v):
        """composite operation through a composite handle"""
        w = v["w"]
        r = self.rng
        groups = {}
        for n in v["live"]:
            g = v["member_of"].get(n)
            if g is not None:
                groups.setdefault(g, []).append(n)
        groups = {g: ns for g, ns in groups.items() if len(ns) >= 2 and v["handles"].get(g)}
        if not groups:
            return None
        g = self.ch(sorted(groups))
        ns = groups[g]
        pols = [n for n in ns if w.kind(n) == "P"]
        focks = [n for n in ns if w.kind(n) == "F"]
        opts = []
        if len(pols) >= 2:
            opts += ["CXPolarization", "CZPolarization", "SwapPolarization"]
        if len(pols) >= 3:
            opts += ["CSwapPolarization"]
        if len(focks) >= 2 and not self.opts.get("no_fock_ops"):
            opts += ["NonPolarizingBeamSplitter"] * 2
        if self.opts.get("no_fock_ops"):
            ns = [n for n in ns if w.kind(n) != "F"]
        if len(ns) >= 2:
            opts += ["Expression"]
        if not opts:
            return None
        focus = self.opts.get("comp_types")
        if focus:
            opts = [o for o in opts if o in focus] or opts
        t = self.ch(opts)
        spec = {"fam": "comp", "type": t}
        if t in ("CXPolarization", "CZPolarization", "SwapPolarization"):
            tg = [str(x) for x in r.choice(pols, size=2, replace=False)]
        elif t == "CSwapPolarization":
            tg = [str(x) for x in r.choice(pols, size=3, replace=False)]
        elif t == "NonPolarizingBeamSplitter":
            tg = [str(x) for x in r.choice(focks, size=2, replace=False)]
            tot = 0
            for f in tg:
                nm, _ = self.support(v, f)
                if nm is None:
                    return None
                tot += nm
            others = v["joint"] // max(1, v["dims"][tg[0]] * v["dims"][tg[1]])
            if (tot + 1) ** 2 * others > self.maxdim:
                return None
            spec["eta"] = float(self.ch([math.pi / 4, math.pi / 4, self.angle() / 2]))
            if self.p(self.opts.get("weak_bs", 0.0)):
                # a weak coupling: the top occupied level of a mode then lives only in a branch of weight 1e-9..1e-5
                # (well above the library's 1e-12 population threshold, well below anything a loose isclose() sees)
                spec["eta"] = float(10 ** r.uniform(-4.5, -2.5)) * (1 if self.p(0.5) else -1)
        else:
            k = int(r.integers(2, min(3, len(ns)) + 1))
            tg = [str(x) for x in r.choice(ns, size=k, replace=False)]
            same = [grp for grp in ([n for n in ns if w.kind(n) == "F"], [n for n in ns if w.kind(n) == "P"]) if len(grp) >= 3]
            if same and self.p(self.opts.get("same_kind_operands", 0.1)):
                # three operands of one kind (e.g. three modes, some of them possibly holding equal states)
                tg = [str(x) for x in r.choice(self.ch(same), size=3, replace=False)]
                k = 3
            kinds = [w.kind(n) for n in tg]
            spec["state_types"] = kinds
            x = r.random()
            if x < 0.45:
                spec["types_form"] = "str" if x < 0.2 else "list" if x < 0.35 else "mixed"
            ctx = {}
            factors = []
            gens = []
            ladder = set()
            for i, (n, kd) in enumerate(zip(tg, kinds)):
                if kd == "F" and self.p(self.opts.get("ladder_expr", 0.0)):
                    # a quadrature a + a^dag instead of the number operator: the matrix then depends on the cutoff it
                    # is built for in every entry (judged at the dimension list the library hands to the context)
                    ladder.add(i)
                    ctx[f"a{i}"] = {"f": "destroy", "i": i}
                    ctx[f"ad{i}"] = {"f": "create", "i": i}
                    ctx[f"i{i}"] = {"f": "eye", "i": i}
                elif kd == "F":
                    ctx[f"g{i}"] = {"f": "number", "i": i}
                    ctx[f"i{i}"] = {"f": "eye", "i": i}
                else:
                    d = v["dims"][n]
                    A = r.standard_normal((d, d)) + 1j * r.standard_normal((d, d))
                    ctx[f"g{i}"] = {"f": "const", "m": c2j((A + A.conj().T) / 2)}
                    ctx[f"i{i}"] = {"f": "const", "m": c2j(np.eye(d))}
            # generator: sum over pairs of g_i x g_j (x identities) -> entangling unitary exp(i G)
            gname = lambda m: ["add", f"a{m}", f"ad{m}"] if m in ladder else f"g{m}"  # noqa: E731
            terms = []
            for i in range(k):
                for j in range(i + 1, k):
                    terms.append(["kron"] + [gname(m) if m in (i, j) else f"i{m}" for m in range(k)])
            terms.append(["kron"] + [gname(m) if m == 0 else f"i{m}" for m in range(k)])
            G = ["add"] + terms if len(terms) > 1 else terms[0]
            # (half of the time a round coefficient: the expression text then coincides with that of other operations
            # of the same shape whose context binds different matrices)
            coef = float(self.ch([0.5, 1.0])) if self.p(0.5) else float(r.uniform(0.2, 1.5))
            spec["expr"] = ["expm", ["s_mult", {"num": [0.0, coef]}, G]]
            spec["context"] = ctx
            if ladder:
                spec["ladder"] = True
        via = {"via": "ce", "ce": self.ch(v["handles"][g][:3])}
        st = {"k": "apply", "op": spec, "targets": tg}
        st.update(via)
        return st

    # ------------------------------------------------------------------ channels & measurements
    def pick_targets(self, v, kmax, need_dims=True):
        """1..kmax live subsystems that one entry point can address together"""
        w = v["w"]
        lv = [n for n in v["live"] if not need_dims or (v["dims"].get(n) and v["dims"][n] > 0 and v["sn"].subs[n]["dims"] > 0)]
        if not lv:
            return None
        k = int(self.rng.integers(1, kmax + 1))
        first = self.pick_sub(lv)
        if k == 1:
            return [first]
        g = v["member_of"].get(first)
        pool = [n for n in lv if n != first and (v["member_of"].get(n) == g and g is not None)]
        e = w.env_of(first)
        if g is None:
            pool = [n for n in lv if n != first and w.env_of(n) == e and e is not None]
        if not pool:
            return [first]
        rest = [str(x) for x in self.rng.choice(pool, size=min(k - 1, len(pool)), replace=False)]
        pt = w.partner(first)
        if pt in pool and self.p(0.3):
            # both parts of one envelope (a request that consumes / transforms the whole envelope)
            rest = [pt] + [x for x in rest if x != pt][: k - 2]
        tg = [first] + rest
        self.rng.shuffle(tg)
        return [str(t) for t in tg]

    def step_kraus(self, v):
        tg = self.pick_targets(v, self.opts.get("kraus_kmax", 3))
        if not tg:
            return None
        d = int(np.prod([v["dims"][t] for t in tg]))
        if d > 36:
            tg = tg[:1]
            d = v["dims"][tg[0]]
        nk = int(self.rng.integers(1, 5))
        x = self.rng.random()
        if x < 0.1:
            Ks = [np.eye(d, dtype=complex)]
            kind = "identity"
        elif x < 0.2 and d <= 6:
            # fully depolarising: K_ij = |i><j| / sqrt(d)
            Ks = []
            for i in range(d):
                for j in range(d):
                    K = np.zeros((d, d), complex)
                    K[i, j] = 1 / math.sqrt(d)
                    Ks.append(K)
            kind = "depolarising"
        elif x < 0.3:
            Ks = [self.unitary(d)]
            kind = "unitary"
        elif x < 0.3 + self.opts.get("weak_channels", 0.0):
            # weak noise: strength anywhere between far below and far above the purity tolerance of contraction
            pw = float(10 ** self.rng.uniform(-7.5, -3))
            Ks = [math.sqrt(1 - pw) * np.eye(d, dtype=complex), math.sqrt(pw) * self.unitary(d)]
            kind = "weak"
        else:
            Ks = ref.kraus_from_dilation(self.rng, d, max(2, nk))
            kind = "dilation"
        via = self.pick_via(v, tg)
        if via is None:
            return None
        st = {"k": "kraus", "ops": [c2j(K) for K in Ks], "targets": tg, "kraus_kind": kind}
        # the caller keeps his list of operators and applies the same list again later (same total dimension)
        seen = getattr(self, "kraus_seen", None)
        if seen is None:
            seen = self.kraus_seen = []
        fits = [(j, o) for j, o in enumerate(seen) if o["ops"][0]["shape"][0] == d]
        if fits and self.rng.random() < 0.35:
            j, o = fits[int(self.rng.integers(0, len(fits)))]
            st["ops"], st["kraus_kind"], st["kraus_id"] = o["ops"], o["kraus_kind"], j
        else:
            seen.append({"ops": st["ops"], "kraus_kind": kind})
            st["kraus_id"] = len(seen) - 1
        st.update(via)
        return st

    def step_povm(self, v):
        tg = self.pick_targets(v, 2)
        if not tg:
            return None
        d = int(np.prod([v["dims"][t] for t in tg]))
        if d > 24:
            tg = tg[:1]
            d = v["dims"][tg[0]]
        x = self.rng.random()
        n = int(self.rng.integers(2, 4))
        if x < 0.25:
            Ms = []
            groups = [[] for _ in range(min(n, d))]
            for i in range(d):
                groups[i % len(groups)].append(i)
            for g in groups:
                M = np.zeros((d, d), complex)
                for i in g:
                    M[i, i] = 1
                Ms.append(M)
            kind = "computational"
        elif x < 0.5:
            Ms = ref.povm_set(self.rng, d, n, projective=True)
            kind = "projective"
        else:
            Ms = ref.povm_set(self.rng, d, n, projective=False)
            kind = "nonprojective"
        via = self.pick_via(v, tg)
        if via is None:
            return None
        st = {"k": "povm", "ops": [c2j(M) for M in Ms], "targets": tg, "povm_kind": kind,
              "destr": bool(self.p(0.5))}
        st.update(via)
        if via["via"] == "state" and v["sn"].subs[tg[0]]["state"][0] != "none" and v["w"].kind(tg[0]) in ("F", "P") and self.p(0.35):
            # documented keyword of the subsystem's own entry point: measure this state only, the envelope partner stays
            # (only where the subsystem holds its own state; elsewhere the keyword is not forwarded and not specified)
            st["partial"] = True
        return st

    def step_measure(self, v):
        w = v["w"]
        lv = v["live"]
        if not lv:
            return None
        x = self.rng.random()
        first = self.pick_sub(lv)
        flags = {}
        if self.p(0.7):
            flags["destr"] = bool(self.p(0.5))
        if self.p(0.5):
            flags["sep"] = bool(self.p(0.6))
        vs = self.vias(v, [first])
        via = self.ch(vs)
        st = {"k": "measure"}
        if via["via"] == "state":
            st["targets"] = [first]
        elif via["via"] == "env":
            e = via["env"]
            mem = [m for m in (e + ".f", e + ".p") if m in lv]
            y = self.rng.random()
            if y < 0.35:
                st["targets"] = []
            elif y < 0.75:
                st["targets"] = [first]
            else:
                tg = list(mem)
                self.rng.shuffle(tg)
                st["targets"] = [str(t) for t in tg]
        else:
            g = v["member_of"].get(first)
            pool = [n for n in lv if v["member_of"].get(n) == g and n != first]
            k = min(len(pool), int(self.ch([0, 1, 1, 2, 2, 3])))
            tg = [first] + [str(t) for t in self.rng.choice(pool, size=k, replace=False)] if k else [first]
            self.rng.shuffle(tg)
            st["targets"] = [str(t) for t in tg]
        st.update(via)
        st.update(flags)
        return st

    # ------------------------------------------------------------------ structure
    def step_composite(self, v):
        w = v["w"]
        r = self.rng
        name = f"CE{len(w.ces)}"
        free_envs = [e for e in w.envs if v["env_ok"][e]]
        cands = []
        for e in free_envs:
            cands.append(e)
        for n in w.subs:
            if w.kind(n) == "X" and v["member_of"].get(n) is None:
                cands.append(n)
        handles = list(w.ces)
        args = []
        if cands:
            k = int(r.integers(1, min(3, len(cands)) + 1))
            args += [str(x) for x in r.choice(cands, size=k, replace=False)]
        if handles and self.p(0.35):
            k = int(r.integers(1, min(2, len(handles)) + 1))
            args += [str(x) for x in r.choice(handles, size=k, replace=False)]
        if not args:
            return None
        r.shuffle(args)
        return {"k": "composite", "name": name, "args": [str(a) for a in args]}

    def step_combine(self, v):
        w = v["w"]
        opts = []
        for e in w.envs:
            if v["env_ok"][e] and (e + ".f") in v["live"] and (e + ".p") in v["live"]:
                opts.append(("env", e))
        for g, hs in v["handles"].items():
            ns = [n for n in v["live"] if v["member_of"].get(n) == g]
            if ns:
                opts.append(("ce", g))
        if not opts:
            return None
        kind, x = self.ch(opts)
        if kind == "env":
            return {"k": "combine", "via": "env", "env": x, "targets": []}
        ns = [n for n in v["live"] if v["member_of"].get(n) == x]
        k = int(self.rng.integers(1, min(4, len(ns)) + 1))
        tg = [str(t) for t in self.rng.choice(ns, size=k, replace=False)]
        whole = [e for e in w.envs if (e + ".f") in ns and (e + ".p") in ns]
        if whole and self.p(0.2):
            # a product space that holds exactly the two parts of one envelope
            e = str(self.ch(whole))
            tg = [e + ".f", e + ".p"] if self.p(0.5) else [e + ".p", e + ".f"]
        joint = int(np.prod([v["dims"][t] or 1 for t in tg]))
        if joint > self.maxdim:
            return None
        return {"k": "combine", "via": "ce", "ce": self.ch(v["handles"][x][:3]), "targets": tg}

    def step_reorder(self, v):
        w = v["w"]
        sn = v["sn"]
        opts = []
        for e in w.envs:
            if v["env_ok"][e] and sn.envs[e]["state"][0] != "none":
                opts.append(("env", e))
        try:
            for b in blocks(sn):
                if b["kind"] == "ps" and len(b["members"]) >= 2:
                    opts.append(("ps", b))
        except Malformed:
            return None
        if not opts:
            return None
        kind, x = self.ch(opts)
        if kind == "env":
            mem = [x + ".f", x + ".p"]
            k = int(self.rng.integers(1, 3))
            tg = [str(t) for t in self.rng.choice(mem, size=k, replace=False)]
            return {"k": "reorder", "via": "env", "env": x, "targets": tg}
        mem = list(x["members"])
        g = v["member_of"].get(mem[0])
        if g is None or not v["handles"].get(g):
            return None
        k = int(self.rng.integers(1, len(mem) + 1))
        tg = [str(t) for t in self.rng.choice(mem, size=k, replace=False)]
        return {"k": "reorder", "via": "ce", "ce": self.ch(v["handles"][g][:3]), "targets": tg}

    def step_expand(self, v, kind="expand"):
        lv = v["live"]
        if not lv:
            return None
        name = self.pick_sub(lv)
        vs = self.vias(v, [name])
        via = self.ch(vs)
        st = {"k": kind, "targets": [name]}
        if via["via"] == "env":
            st["targets"] = []
        st.update(via)
        if kind == "contract" and via["via"] == "state" and self.p(0.3):
            st["final"] = self.ch(["Label", "Vector"])
        if kind == "contract" and via["via"] in ("state", "env") and self.opts.get("near_pure") and self.p(0.4):
            # caller-chosen purity tolerance
            st["tol"] = float(self.ch([1e-2, 1e-3, 1e-4, 1e-9]))
        return st

    def step_trace_out(self, v):
        w = v["w"]
        sn = v["sn"]
        lv = v["live"]
        if not lv:
            return None
        x = self.rng.random()
        name = self.pick_sub(lv)
        if x < 0.3:
            return {"k": "trace_out", "via": "state", "targets": [name]}
        if x < 0.55:
            e = w.env_of(name)
            if e and v["env_ok"][e]:
                mem = [m for m in (e + ".f", e + ".p") if m in lv]
                k = int(self.rng.integers(1, len(mem) + 1))
                tg = [str(t) for t in self.rng.choice(mem, size=k, replace=False)]
                return {"k": "trace_out", "via": "env", "env": e, "targets": tg}
        # composite: only subsystems already stored in product spaces
        try:
            pss = [b for b in blocks(sn) if b["kind"] == "ps"]
        except Malformed:
            return None
        if not pss:
            return None
        b = self.ch(pss)
        g = v["member_of"].get(b["members"][0])
        if g is None or not v["handles"].get(g):
            return None
        pool = [m for bb in pss for m in bb["members"] if v["member_of"].get(m) == g]
        k = int(self.rng.integers(1, min(3, len(pool)) + 1))
        tg = [str(t) for t in self.rng.choice(pool, size=k, replace=False)]
        return {"k": "trace_out", "via": "ce", "ce": self.ch(v["handles"][g][:3]), "targets": tg}

    def step_resize(self, v):
        w = v["w"]
        focks = [n for n in v["live"] if w.kind(n) == "F"]
        if not focks:
            return None
        f = self.pick_sub(focks)
        d = v["dims"][f]
        n = int(self.rng.integers(1, d + 4))
        vs = self.vias(v, [f])
        via = self.ch(vs)
        st = {"k": "resize", "targets": [f], "n": n}
        st.update(via)
        return st

    def step_config(self, v):
        return {"k": "config", "contraction": bool(self.p(0.5))}

    # ------------------------------------------------------------------ main
    @staticmethod
    def _opsize(o):
        try:
            return int(o["operator"]["shape"][0])
        except Exception:  # noqa: BLE001
            return None

    def refused_request(self, v, j, o):
        """a request that must be REFUSED, made with the operation object number j of this program (which an earlier
        step applied): the wrong kind of subsystem, a destroyed subsystem, a fixed-size custom Fock operator on a
        space holding more photons than it has levels, the same operand twice.  Being refused must not change what
        the object does when it is re-used afterwards (C15); the request itself is a C17 matter."""
        w, sn, lv = v["w"], v["sn"], v["live"]
        fam = o["fam"]
        want = {"fock": "F", "pol": "P", "custom": "X"}.get(fam)
        cands = []
        if fam in ("fock", "pol", "custom"):
            for t in lv:
                if w.kind(t) != want:
                    cands.append(("wrong-kind", [t]))
            for t in sn.order:
                if sn.subs[t]["measured"] and w.kind(t) == want:
                    cands.append(("destroyed", [t]))
            if fam == "fock" and o["type"] == "Custom":
                k = self._opsize(o)
                for t in lv:
                    if w.kind(t) == "F":
                        nm, _ = self.support(v, t)
                        if nm is not None and k is not None and nm >= k:
                            cands += [("too-small-operator", [t])] * 3
        elif fam == "comp" and o["type"] != "Expression" and o["type"] != "NonPolarizingBeamSplitter":
            for t in lv:
                if w.kind(t) == "P" and v["member_of"].get(t) is not None:
                    cands.append(("duplicate-operands", [t, t] if o["type"] != "CSwapPolarization" else [t, t, t]))
        if not cands:
            return None
        why, tg = cands[int(self.rng.integers(0, len(cands)))]
        if why == "destroyed":
            via = {"via": "state"}
        elif fam == "comp":
            hs = v["handles"].get(v["member_of"].get(tg[0]), [])
            if not hs:
                return None
            via = {"via": "ce", "ce": self.ch(hs)}
        else:
            via = self.pick_via(v, tg[:1], "env" if why == "too-small-operator" else None)
            if via is None or (w.kind(tg[0]) == "X" and via["via"] == "env"):
                return None
        st = {"k": "apply", "op": o, "op_id": j, "targets": tg, "fault": "refused-reuse", "why": why}
        st.update(via)
        return st

    def _maybe_reuse(self, st, v=None):
        """An Operation is a reusable description: with some probability apply an operation object that an earlier
        step of this program already used (same description, other targets of the same kinds, e.g. Focks of other
        dimensions) instead of a fresh one. Runner caches the object under op_id."""
        seen = getattr(self, "ops_seen", None)
        if seen is None:
            seen = self.ops_seen = []
        sp = st["op"]
        if sp["fam"] != "comp" and sp["type"] not in ("Custom", "Expresion"):
            fits = [(j, o) for j, o in enumerate(seen) if o["fam"] == sp["fam"] and o["fam"] != "comp"
                    and o["type"] not in ("Custom", "Expresion")]
        elif sp["fam"] == "comp" and sp["type"] == "Expression" and "X" not in sp["state_types"]:
            fits = [(j, o) for j, o in enumerate(seen) if o["fam"] == "comp" and o["type"] == "Expression"
                    and o["state_types"] == sp["state_types"]]
        elif sp["fam"] == "comp" and sp["type"] != "Expression":
            fits = [(j, o) for j, o in enumerate(seen) if o["fam"] == "comp" and o["type"] == sp["type"]]
        elif sp["fam"] == "custom" and sp["type"] == "Expresion":
            # dimension-adaptive expressions fit custom states of any size
            fits = [(j, o) for j, o in enumerate(seen) if o["fam"] == "custom" and o.get("adaptive")]
        elif sp["type"] == "Custom" and v is not None and self.opts.get("reuse_custom") and not sp.get("nonunitary"):
            # a fixed-size custom operator fits every target it is big enough for (never an implicit shrink)
            t = st["targets"][0]
            d = v["dims"].get(t)
            if sp["fam"] == "fock":
                nm, _ = self.support(v, t)
                need = max((nm if nm is not None else 10**6) + 1, d or 0, 2)
                fits = [(j, o) for j, o in enumerate(seen) if o["fam"] == "fock" and o["type"] == "Custom" and not o.get("nonunitary")
                        and (self._opsize(o) or 0) >= need and (self._opsize(o) or 0) <= need + 2]
            else:
                fits = [(j, o) for j, o in enumerate(seen) if o["fam"] == sp["fam"] and o["type"] == "Custom" and not o.get("nonunitary")
                        and self._opsize(o) == d]
        else:
            fits = []
        if fits and self.rng.random() < self.opts.get("op_reuse", 0.25) * 2:
            j, o = fits[int(self.rng.integers(0, len(fits)))]
            st["op"] = o
            st["op_id"] = j
        else:
            seen.append(sp)
            st["op_id"] = len(seen) - 1

    def multi_ce_prefix(self, v):
        """scripted prefix: partition the world into 2-3 groups and build one composite envelope per group"""
        w = v["w"]
        units = list(w.envs) + [n for n in w.subs if w.kind(n) == "X"]
        if len(units) < 2:
            return []
        self.rng.shuffle(units)
        k = int(self.rng.integers(2, min(3, len(units)) + 1))
        groups = [[] for _ in range(k)]
        for i, u in enumerate(units):
            groups[i % k].append(str(u))
        return [{"k": "composite", "name": f"CE{i}", "args": g} for i, g in enumerate(groups) if g]

    def lifecycle_prefix(self, v):
        """scripted prefix: one envelope goes through its whole storage life cycle - combined, absorbed into a
        composite product space together with another subsystem, released again by a non-destructive measurement -
        and the following random steps keep addressing it (focus).  Flags that should have been reset on the way
        (stale envelope arrays, level tags, indices) show up in what comes next."""
        w = v["w"]
        if not w.envs:
            return []
        e = str(self.ch(w.envs))
        if self.p(0.35):
            # variant: the envelope stays on its own - combined, expanded, operated on (with automatic contraction on
            # the matrix path brings it back to a vector, with it off it stays a matrix), then one part is measured
            # or traced separately: every inline level change on the way is visible in the survivor's state
            pre = [{"k": "combine", "via": "env", "env": e, "targets": []}]
            if self.p(0.8):
                pre.append({"k": "expand", "via": "env", "env": e, "targets": []})
                if self.p(0.5):
                    pre.append({"k": "expand", "via": "env", "env": e, "targets": []})
            for _ in range(int(self.rng.integers(0, 3)) if self.p(0.3) else 1):
                t = e + (".f" if self.p(0.5) else ".p")
                op = {"fam": "fock", "type": "PhaseShift", "phi": self.angle()} if t.endswith(".f") else self.pol_op()
                op.pop("nonunitary", None)
                if op.get("type") == "Custom" and t.endswith(".p"):
                    op = {"fam": "pol", "type": "RY", "theta": self.angle()}
                st = {"k": "apply", "op": op, "targets": [t], "via": str(self.ch(["env", "state"]))}
                if st["via"] == "env":
                    st["env"] = e
                pre.append(st)
            part = e + (".f" if self.p(0.5) else ".p")
            x = self.rng.random()
            if x < 0.6:
                pre.append({"k": "measure", "via": "env", "env": e, "targets": [part], "sep": True, "destr": bool(self.p(0.5))})
            elif x < 0.8:
                pre.append({"k": "trace_out", "via": "env", "env": e, "targets": [part]})
            self.focus = {e + ".f", e + ".p"}
            self.sticky_focus = 3
            return pre
        if len(w.subs) < 3:
            return []
        others = [n for n in w.subs if not n.startswith(e + ".")]
        if not others:
            return []
        o = str(self.ch(others))
        units = list(w.envs) + [n for n in w.subs if w.kind(n) == "X"]
        if w.kind(o) in ("F", "P") and w.env_of(o) is None:
            return []
        rest = [n for n in others if w.env_of(n) is not None or w.kind(n) == "X"]
        if len(rest) >= 2 and self.p(0.35):
            # variant: the two parts of the envelope fill an EARLY product space of the composite, other subsystems
            # a later one; the following steps keep addressing the envelope (measuring it away empties that space
            # and shifts the positions of everything behind it)
            o1, o2 = [str(x) for x in self.rng.choice(rest, size=2, replace=False)]
            pre = [{"k": "composite", "name": "CE0", "args": [str(u) for u in units]},
                   {"k": "combine", "via": "ce", "ce": "CE0", "targets": [e + ".f", e + ".p"] if self.p(0.5) else [e + ".p", e + ".f"]},
                   {"k": "combine", "via": "ce", "ce": "CE0", "targets": [o1, o2]}]
            self.focus = {e + ".f", e + ".p"}
            self.sticky_focus = 3
            return pre
        pre = [{"k": "composite", "name": "CE0", "args": [str(u) for u in units]},
               {"k": "combine", "via": "env", "env": e, "targets": []}]
        if self.p(0.5):
            pre.append({"k": "expand", "via": "env", "env": e, "targets": []})
        if self.p(0.5):
            # an operation on the combined envelope (with automatic contraction on, its matrix path contracts the
            # envelope again before it joins the composite product space)
            t = e + (".f" if self.p(0.5) else ".p")
            op = {"fam": "fock", "type": "PhaseShift", "phi": self.angle()} if t.endswith(".f") else self.pol_op()
            st = {"k": "apply", "op": op, "targets": [t], "via": str(self.ch(["env", "state"]))}
            if st["via"] == "env":
                st["env"] = e
            pre.append(st)
        member = e + (".f" if self.p(0.5) else ".p")
        pre.append({"k": "combine", "via": "ce", "ce": "CE0", "targets": [member, o]})
        pre.append({"k": "measure", "via": str(self.ch(["ce", "state"])), "ce": "CE0", "targets": [member], "destr": False})
        if pre[-1]["via"] == "state":
            pre[-1].pop("ce")
        self.focus = {e + ".f", e + ".p"}
        self.sticky_focus = 4
        return pre

    def big_space_prefix(self, v):
        """scripted prefix: three to five subsystems are joined into ONE composite product space by a single combine in
        random order (optionally reordered afterwards); the following steps keep addressing its members - with
        multi-target requests naming them in an order unrelated to the storage order."""
        w = v["w"]
        units = list(w.envs) + [n for n in w.subs if w.kind(n) == "X"]
        members = [n for n in v["live"] if w.env_of(n) is not None or w.kind(n) == "X"]
        if len(members) < 3:
            return []
        k = int(self.rng.integers(3, min(5, len(members)) + 1))
        tg = [str(x) for x in self.rng.choice(members, size=k, replace=False)]
        dim = 1
        for t in tg:
            d = v["dims"].get(t)
            if not d or d < 0:
                nm, _ = self.support(v, t)
                d = (nm or 0) + 4
            dim *= d
        if dim > self.maxdim // 2:
            return []
        pre = [{"k": "composite", "name": "CE0", "args": [str(u) for u in units]},
               {"k": "combine", "via": "ce", "ce": "CE0", "targets": tg}]
        if self.p(0.4):
            sub = [str(x) for x in self.rng.choice(tg, size=int(self.rng.integers(2, k + 1)), replace=False)]
            pre.append({"k": "reorder", "via": "ce", "ce": "CE0", "targets": sub})
        if self.profile in ("measure",) or self.p(0.25):
            m = int(self.rng.integers(2, min(3, k) + 1))
            mt = [str(x) for x in self.rng.choice(tg, size=m, replace=False)]
            st = {"k": "measure", "via": "ce", "ce": "CE0", "targets": mt}
            if self.p(0.7):
                st["destr"] = bool(self.p(0.5))
            if self.p(0.6):
                st["sep"] = bool(self.p(0.7))
            pre.append(st)
        self.focus = set(tg)
        self.sticky_focus = 3
        return pre

    def weak_bs_prefix(self, v):
        """scripted prefix: two modes are coupled by a very weak beam splitter, so that the top occupied level of at
        least one of them lives only in a branch of weight 1e-9..1e-5; the following steps (resizes across that level,
        phase shifters, further splitters) keep addressing the two modes."""
        w = v["w"]
        envs = [e for e in w.envs if e + ".f" in v["live"]]
        if len(envs) < 2:
            return []
        e1, e2 = [str(x) for x in self.rng.choice(envs, size=2, replace=False)]
        tot = 0
        for f in (e1 + ".f", e2 + ".f"):
            nm, _ = self.support(v, f)
            if nm is None:
                return []
            tot += nm
        if tot == 0 or (tot + 1) ** 2 * 4 > self.maxdim:
            return []
        units = list(w.envs) + [n for n in w.subs if w.kind(n) == "X"]
        eta = float(10 ** self.rng.uniform(-4.5, -2.5)) * (1 if self.p(0.5) else -1)
        pre = [{"k": "composite", "name": "CE0", "args": [str(u) for u in units]},
               {"k": "apply", "op": {"fam": "comp", "type": "NonPolarizingBeamSplitter", "eta": eta},
                "targets": [e1 + ".f", e2 + ".f"], "via": "ce", "ce": "CE0"}]
        self.focus = {e1 + ".f", e2 + ".f"}
        self.sticky_focus = 4
        return pre

    def refuse_first_prefix(self, v):
        """scripted prefix: the very first use of an operation object is a request that must be refused (a fixed-size
        custom Fock operator on a space holding more photons than it has levels - through the subsystem, its combined
        envelope or a composite handle -, or an operation on the wrong kind of subsystem); the same object is then
        applied to a target it fits.  A refusal must leave no trace in the object (C15)."""
        w = v["w"]
        seen = getattr(self, "ops_seen", None)
        if seen is None:
            seen = self.ops_seen = []
        focks = []
        for n in v["live"]:
            if w.kind(n) == "F":
                nm, _ = self.support(v, n)
                if nm is not None:
                    focks.append((n, nm, v["dims"].get(n) or 0))
        pre = []
        pairs = []
        for b, nb, _ in focks:
            for sm, ns, ds in focks:
                lo = max(ns + 1, ds, 2)
                if sm != b and lo <= nb:
                    pairs.append((b, sm, lo, nb))
        if pairs and self.p(0.75):
            b, sm, lo, nb = pairs[int(self.rng.integers(0, len(pairs)))]
            k = int(self.rng.integers(lo, nb + 1))
            op = {"fam": "fock", "type": "Custom", "operator": c2j(self.unitary(k))}
            seen.append(op)
            j = len(seen) - 1
            eb = w.env_of(b)
            if eb is not None and self.p(0.7):
                if self.p(0.8):
                    pre.append({"k": "combine", "via": "env", "env": eb, "targets": []})
                via = {"via": "env", "env": eb}
            else:
                via = {"via": "state"}
            st = {"k": "apply", "op": op, "op_id": j, "targets": [b], "fault": "refused-reuse", "why": "too-small-operator"}
            st.update(via)
            pre.append(st)
            es = w.env_of(sm)
            if es is not None and self.p(0.4):
                pre.append({"k": "combine", "via": "env", "env": es, "targets": []})
                via2 = {"via": "env", "env": es}
            else:
                via2 = {"via": "state"}
            st2 = {"k": "apply", "op": op, "op_id": j, "targets": [sm]}
            st2.update(via2)
            pre.append(st2)
            return pre
        pols = [n for n in v["live"] if w.kind(n) == "P"]
        fk = [n for n, _, _ in focks]
        if pols and fk:
            op = {"fam": "pol", "type": self.ch(POL_ROT), "theta": self.angle()}
            seen.append(op)
            j = len(seen) - 1
            pre.append({"k": "apply", "op": op, "op_id": j, "targets": [str(self.ch(fk))], "via": "state", "fault": "refused-reuse", "why": "wrong-kind"})
            pre.append({"k": "apply", "op": op, "op_id": j, "targets": [str(self.ch(pols))], "via": "state"})
        return pre

    def big_then_small_prefix(self, v):
        """scripted prefix: one cutoff-dependent expression operation object (quadrature of a mode coupled to its
        polarization) is applied first to the envelope whose mode holds MORE photons, then to one holding fewer: what the
        object learned about dimensions in the first application must not leak into the second (C15)."""
        w = v["w"]
        seen = getattr(self, "ops_seen", None)
        if seen is None:
            seen = self.ops_seen = []
        envs = []
        for e in w.envs:
            if e + ".f" in v["live"] and e + ".p" in v["live"]:
                nm, _ = self.support(v, e + ".f")
                if nm is not None and nm <= 5:
                    envs.append((e, nm))
        envs.sort(key=lambda t: -t[1])
        if len(envs) < 2 or envs[0][1] == envs[-1][1]:
            return []
        big, small = envs[0][0], envs[-1][0]
        units = list(w.envs) + [n for n in w.subs if w.kind(n) == "X"]
        A = self.rng.standard_normal((2, 2)) + 1j * self.rng.standard_normal((2, 2))
        op = {"fam": "comp", "type": "Expression", "state_types": ["F", "P"], "ladder": True,
              "expr": ["expm", ["s_mult", {"num": [0.0, float(self.rng.uniform(0.3, 1.2))]}, ["kron", ["add", "a0", "ad0"], "g1"]]],
              "context": {"a0": {"f": "destroy", "i": 0}, "ad0": {"f": "create", "i": 0}, "g1": {"f": "const", "m": c2j((A + A.conj().T) / 2)}}}
        seen.append(op)
        j = len(seen) - 1
        return [{"k": "composite", "name": "CE0", "args": [str(u) for u in units]},
                {"k": "apply", "op": op, "op_id": j, "targets": [big + ".f", big + ".p"], "via": "ce", "ce": "CE0"},
                {"k": "apply", "op": op, "op_id": j, "targets": [small + ".f", small + ".p"], "via": "ce", "ce": "CE0"}]

    def same_alpha_prefix(self, v):
        """scripted prefix: two modes are brought to the same cutoff and representation level, then displaced by the SAME
        amplitude (one operation object, or two objects with equal parameters) - the less occupied mode first.  Anything
        the library remembers about the first displacement (a cutoff, an operator) must not be used for the second."""
        w = v["w"]
        fs = []
        for n in v["live"]:
            if w.kind(n) == "F" and v["sn"].subs[n]["index"] is None:
                nm, _ = self.support(v, n)
                if nm is not None and nm <= 4:
                    fs.append((n, nm))
        if len(fs) < 2 or len(v["live"]) > 4 or any(w.kind(n) == "X" for n in v["live"]):
            return []
        fs.sort(key=lambda t: t[1])
        (lo, nlo), (hi, nhi) = fs[0], fs[-1]
        if nlo == nhi:
            return []
        D = max(nhi + 2, max(v["dims"].get(lo) or 0, v["dims"].get(hi) or 0))
        if D > 7:
            return []
        pre = []
        for f in (lo, hi):
            pre.append({"k": "resize", "targets": [f], "n": int(D), "via": "state"})
        for f in (lo, hi):
            lvl = v["sn"].subs[f].get("level")
            if lvl == "L":
                pre.append({"k": "expand", "targets": [f], "via": "state"})
        a = self.rng.uniform(0.4, 1.3) * self.unit_phase()
        op = {"fam": "fock", "type": "Displace", "alpha": [float(a.real), float(a.imag)]}
        seen = getattr(self, "ops_seen", None)
        if seen is None:
            seen = self.ops_seen = []
        seen.append(op)
        j = len(seen) - 1
        st1 = {"k": "apply", "op": op, "op_id": j, "targets": [lo], "via": "state"}
        st2 = {"k": "apply", "op": dict(op), "targets": [hi], "via": "state"}
        if self.p(0.5):
            st2["op"], st2["op_id"] = op, j
        return pre + [st1, st2]

    def same_kind_prefix(self, v):
        """scripted prefix: a three-operand expression operation over three subsystems of one kind (three modes or
        three polarizations) of which one already shares a product space with a bystander while the other two are
        still stored on their own"""
        w = v["w"]
        if len(w.envs) < 3:
            return []
        envs = [str(e) for e in w.envs]
        self.rng.shuffle(envs)
        suf = ".f" if self.p(0.7) else ".p"
        tg = [e + suf for e in envs[:3]]
        mate_pool = [n for n in w.subs if n not in tg]
        if not mate_pool:
            return []
        mate = str(self.ch(mate_pool))
        units = list(w.envs) + [n for n in w.subs if w.kind(n) == "X"]
        if w.env_of(mate) is None and w.kind(mate) != "X":
            return []
        kd = "F" if suf == ".f" else "P"
        g = {"f": "number", "i": 0}
        ctx = {}
        for i in range(3):
            if kd == "F":
                ctx[f"g{i}"] = {"f": "number", "i": i}
                ctx[f"i{i}"] = {"f": "eye", "i": i}
            else:
                ctx[f"g{i}"] = {"f": "const", "m": c2j(np.diag([0.0, 1.0]))}
                ctx[f"i{i}"] = {"f": "const", "m": c2j(np.eye(2))}
        G = ["add", ["kron", "g0", "g1", "i2"], ["kron", "i0", "g1", "g2"], ["kron", "g0", "i1", "i2"]]
        spec = {"fam": "comp", "type": "Expression", "state_types": [kd] * 3,
                "expr": ["expm", ["s_mult", {"num": [0.0, float(self.rng.uniform(0.3, 1.4))]}, G]], "context": ctx}
        order = [tg[i] for i in self.rng.permutation(3)]
        pre = [{"k": "composite", "name": "CE0", "args": [str(u) for u in units]},
               {"k": "combine", "via": "ce", "ce": "CE0", "targets": [tg[0], mate] if self.p(0.5) else [mate, tg[0]]},
               {"k": "apply", "op": spec, "targets": order, "via": "ce", "ce": "CE0"}]
        self.focus = set(tg)
        self.sticky_focus = 3
        return pre

    def next_step(self, runner):
        v = self.view(runner)
        if v["joint"] > self.maxdim:
            return None
        if not runner.records and self.opts.get("same_kind_prefix") and self.p(self.opts["same_kind_prefix"]):
            self.prefix = self.same_kind_prefix(v)
        elif not runner.records and self.opts.get("multi_ce") and self.p(self.opts["multi_ce"]):
            self.prefix = self.multi_ce_prefix(v)
            if self.p(0.4):
                self.chain_at = int(self.rng.integers(len(self.prefix) + 2, len(self.prefix) + 6))
        elif getattr(self, "chain_at", None) is not None and len(runner.records) >= self.chain_at and len(v["w"].ces) >= 2:
            # a chain of merges: a handle merged alone, merged again, then absorbed into the container of another
            # composite - afterwards the oldest handles (which the following steps prefer) must still see everything
            self.chain_at = None
            w = v["w"]
            n = len(w.ces)
            a, b = str(w.ces[0]), str(w.ces[1])
            self.prefix = [{"k": "composite", "name": f"CE{n}", "args": [a]},
                           {"k": "composite", "name": f"CE{n + 1}", "args": [f"CE{n}"]},
                           {"k": "composite", "name": f"CE{n + 2}", "args": [b, f"CE{n + 1}"]}]
        elif not runner.records and self.opts.get("lifecycle") and self.p(self.opts["lifecycle"]):
            self.prefix = self.lifecycle_prefix(v)
        elif not runner.records and self.opts.get("same_alpha") and self.p(self.opts["same_alpha"]):
            self.prefix = self.same_alpha_prefix(v)
        elif not runner.records and self.opts.get("big_small") and self.p(self.opts["big_small"]):
            self.prefix = self.big_then_small_prefix(v)
        elif not runner.records and self.opts.get("refuse_first") and self.p(self.opts["refuse_first"]):
            self.prefix = self.refuse_first_prefix(v)
        elif not runner.records and self.opts.get("weak_prefix") and self.p(self.opts["weak_prefix"]):
            self.prefix = self.weak_bs_prefix(v)
        elif not runner.records and self.p(self.opts.get("big_space", 0.12)):
            self.prefix = self.big_space_prefix(v)
        if getattr(self, "prefix", None):
            return self.prefix.pop(0)
        if getattr(self, "pending_refusal", None) is not None:
            j, o = self.pending_refusal
            self.pending_refusal = None
            try:
                st = self.refused_request(v, j, o)
            except Malformed:
                st = None
            if st:
                return st
        if not v["w"].ces and self.p(self.opts.get("p_early_composite", 0.6)) and len(runner.records) < 2:
            st = self.step_composite(v)
            if st:
                return st
        kinds = list(self.w)
        ws = np.array([self.w[k] for k in kinds], float)
        ws /= ws.sum()
        for _ in range(12):
            k = kinds[int(self.rng.choice(len(kinds), p=ws))]
            fn = {
                "apply1": self.step_apply1, "applyc": self.step_applyc, "kraus": self.step_kraus,
                "measure": self.step_measure, "povm": self.step_povm, "combine": self.step_combine,
                "reorder": self.step_reorder, "expand": self.step_expand,
                "contract": lambda vv: self.step_expand(vv, "contract"), "trace_out": self.step_trace_out,
                "resize": self.step_resize, "config": self.step_config, "composite": self.step_composite,
            }[k]
            try:
                st = fn(v)
            except Malformed:
                st = None
            if st:
                if st["k"] == "apply" and self.opts.get("op_reuse", 0.25) and "op_id" not in st:
                    self._maybe_reuse(st, v)
                    if st.get("op_id") is not None and self.p(self.opts.get("refuse_reuse", 0.0)):
                        self.pending_refusal = (st["op_id"], st["op"])
                if getattr(self, "sticky_focus", 0) > 0:
                    self.sticky_focus -= 1
                    return st
                self.focus = set(st.get("targets", []))
                for t in list(self.focus):
                    pt = v["w"].partner(t)
                    if pt:
                        self.focus.add(pt)
                if st.get("via") == "env":
                    self.focus |= {st["env"] + ".f", st["env"] + ".p"}
                return st
        return None
