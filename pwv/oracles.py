"""Per-property oracles over StepRecords.  Each returns a list of verdict dicts:

  {"prop", "status": held|violated|inconclusive, "mode", "detail", "cell": tuple, "sig": dict}
"""
import numpy as np

from pwv import ref, spec as S, opspec
from pwv.world import live, blocks, denote, impl_dims, Malformed, storage_of, arr_np, fock_dim, block_rho
from pwv.run import rho_pre, rho_post, rec_dims
from pwv import wellformed


def V(prop, status, mode="", detail="", cell=None, **sig):
    return {"prop": prop, "status": status, "mode": mode, "detail": detail, "cell": cell, "sig": sig}


# --------------------------------------------------------------------------- context of a step


def state_class(rec, names):
    """label-product / pure-product / pure-entangled / mixed of the pre-state w.r.t. `names`"""
    key = ("sc", tuple(names))
    if key in rec.cache:
        return rec.cache[key]
    try:
        allr, dims = rho_pre(rec)
        pur = ref.purity(allr)
        lv = live(rec.pre)
        r, d = rho_pre(rec, names)
        pt = ref.purity(r)
        if pur < 1 - 1e-6:
            cls = "mixed"
        elif pt < 1 - 1e-6:
            cls = "pure-entangled"
        else:
            labels = all(rec.pre.subs[n]["level"] == "L" for n in names)
            cls = "label" if labels else "pure-product"
    except Malformed:
        cls = "malformed"
    rec.cache[key] = cls
    return cls


def step_sig(rec, names=None):
    """common signature fields of a step"""
    st = rec.step
    names = names if names is not None else st.get("targets", [])
    stor, lev = [], []
    for n in names:
        k, l, sz = storage_of(rec.pre, n)
        stor.append(k)
        lev.append(l or "-")
    sig = {
        "kind": st["k"],
        "via": st.get("via", "-"),
        "storage": "+".join(sorted(set(stor))) or "-",
        "level": "+".join(sorted(set(lev))) or "-",
        "kinds": "".join(rec.world.kind(n) for n in names),
    }
    if "op" in st:
        sig["op"] = st["op"]["fam"] + "." + st["op"]["type"]
    if st["k"] in ("measure", "povm"):
        sig["flags"] = ("sep" if st.get("sep") else "") + ("partial" if st.get("partial") else "") + ("D" if st.get("destr", True) else "N")
    if rec.exc is not None:
        sig["exc"] = rec.exc_type
        sig["frame"] = rec.exc_frame
    return sig


def contraction_slack(rec, exp_rho, dims, names):
    """Extra tolerance when the library contracted a not-exactly-pure block.

    contract() treats |Tr rho^2 - 1| < 1e-6 as pure (documented tolerance `tol`), so a block whose expected purity
    deficit lies in (1e-9, 1e-5) and that the library now stores as a vector may differ from the exact state by up
    to ~1e-6.  Generators avoid that zone for the states they build, but a non-unitary operator, a channel or a
    measurement can move a state into it."""
    # (not gated on the Config flag: Envelope.apply_kraus contracts its result whatever the flag says, and no
    # property forbids reporting a state that is pure within the documented tolerance as a vector)
    try:
        for b in blocks(rec.post):
            if b["level"] == "M" or not all(m in names for m in b["members"]):
                continue
            r = ref.reduced(exp_rho, dims, [names.index(m) for m in b["members"]])
            tr = np.trace(r).real
            if tr <= 0:
                continue
            deficit = 1 - ref.purity(r / tr)
            if 1e-9 < deficit < 1e-5:
                return 2e-6
    except Malformed:
        pass
    return 0.0


def post_invalid(rec, names):
    """C07-type problems of the post-state blocks that hold any of `names` (the call's own result must be a valid,
    correctly tagged state: later judgements are gated on valid pre-states, so nobody else would look)"""
    try:
        probs = wellformed.c07(rec.post)
    except Exception:  # noqa: BLE001
        return []
    out = []
    for mode, det in probs:
        if mode == "unreadable" or any(("'" + n + "'") in det for n in names):
            out.append((mode, det))
    return out


def pre_ok(rec):
    """the pre-state is readable and every stored block is a valid quantum state (the properties speak about
    valid states; what an earlier defect left behind is not held against the call under judgement)"""
    if "pre_ok" in rec.cache:
        return rec.cache["pre_ok"]
    try:
        rho_pre(rec)
        ok = not wellformed.c07(rec.pre)
    except Malformed:
        ok = False
    rec.cache["pre_ok"] = ok
    return ok


# --------------------------------------------------------------------------- C01 / C03 / (C10b, C11 reuse)


def judge_apply(rec, prop):
    st = rec.step
    if st["k"] != "apply" or st.get("fault") or st.get("dead_probe"):
        return []
    fam = st["op"]["fam"]
    if prop == "C01" and fam == "comp":
        return []
    if prop == "C03" and fam != "comp":
        return []
    sig = step_sig(rec)
    sig["contraction"] = rec.contraction
    sc = state_class(rec, st["targets"])
    cell = (sig.get("op"), sig["via"], sig["storage"], sig["level"], sc, rec.contraction)
    if prop == "C03":
        cell = cell + (tuple(st["targets"]) != tuple(sorted(st["targets"])),)
    if not pre_ok(rec):
        return [V(prop, "inconclusive", "pre-malformed", cell=cell, **sig)]
    try:
        exp = S.expected_apply(rec)
    except S.Invalid as e:
        return [V(prop, "inconclusive", "invalid-request", str(e), cell=cell, **sig)]
    sig["state"] = sc
    if rec.exc is not None:
        return [V(prop, "violated", "spurious-exception", f"{rec.exc_type}: {rec.exc_msg}", cell=cell, **sig)]
    try:
        got, gd = rho_post(rec, exp["names"], exp["need"])
    except Malformed as e:
        return [V(prop, "violated", "post-unreadable", str(e), cell=cell, **sig)]
    if gd != exp["dims"]:
        return [V(prop, "violated", "post-dims", f"{gd} vs {exp['dims']}", cell=cell, **sig)]
    ok, err, meas = S.compare_states(got, exp["rho"], exp["approx"])
    if not ok and not exp["approx"] and err <= S.EXACT_TOL + contraction_slack(rec, exp["rho"], exp["dims"], exp["names"]):
        ok = True
    if ok:
        bad = post_invalid(rec, st["targets"])
        if bad:
            return [V(prop, "violated", "post-state-invalid", f"{bad[0][0]}: {bad[0][1]}", cell=cell, **sig)]
        return [V(prop, "held", cell=cell, **sig)]
    if exp["approx"]:
        # truncation quality is C10's business; C01 only demands the right map up to the documented threshold.
        # But a result that is far from the ideal one although (almost) all of the ideal result lies inside the
        # dimension the library chose cannot be explained by truncation: cutting off population `lost` moves the
        # state by at most ~2 sqrt(lost) in trace distance.
        try:
            post_dims = impl_dims(rec.post)
            lost = 0.0
            for f in st["targets"]:
                if rec.world.kind(f) == "F":
                    dg = ref.diag_probs(exp["rho"], exp["dims"], exp["names"].index(f))
                    lost = max(lost, float(dg[(post_dims.get(f) or 0):].sum()))
            if meas == "tracedist" and err > 0.02 + 6 * np.sqrt(lost):
                return [V(prop, "violated", "wrong-state", f"{meas}={err:.3g} while only {lost:.3g} of the ideal result lies outside the chosen dimension", cell=cell, **sig)]
        except Exception:  # noqa: BLE001
            pass
        return [V(prop, "inconclusive", "approx-band", f"{meas}={err:.3g}", cell=cell, **sig)]
    mode = "wrong-state"
    # cheap defect-model tags (used by known-finding matching)
    model = None
    try:
        tr = np.trace(got).real
        if abs(tr - 1) > 1e-7:
            fro = np.linalg.norm(exp["rho"] * exp["trace"]) if opspec.renormalises(st["op"]) else None
            model = "unnormalised"
            # Frobenius-normalised instead of trace-normalised?
            raw = exp["rho"] * (exp["trace"] if opspec.renormalises(st["op"]) else 1.0)
            if np.linalg.norm(raw) > 0 and ref.maxdiff(got, raw / np.linalg.norm(raw)) < 1e-8:
                model = "frobenius-norm"
    except Exception:
        pass
    sig["model"] = model
    return [V(prop, "violated", mode, f"{meas}={err:.3g} model={model}", cell=cell, **sig)]


# --------------------------------------------------------------------------- C02


STRUCT = ("combine", "reorder", "expand", "contract", "composite", "trace_out")


def judge_c02(rec):
    st = rec.step
    out = []
    if st["k"] not in STRUCT or st.get("fault") or st.get("dead_probe"):
        return out
    sig = step_sig(rec)
    lv = live(rec.pre)
    sc = state_class(rec, lv)
    nb = -1
    try:
        nb = len(blocks(rec.pre))
    except Malformed:
        pass
    cell = (st["k"], sig["via"], sig["storage"], sig["level"], sc, len(st.get("targets", st.get("args", []))))
    if not pre_ok(rec):
        return [V("C02", "inconclusive", "pre-malformed", cell=cell, **sig)]
    sig["state"] = sc
    r0, d0 = rho_pre(rec)
    try:
        r1, d1 = rho_post(rec)
    except Malformed as e:
        return [V("C02", "violated", "post-unreadable", str(e), cell=cell, **sig)]
    if live(rec.post) != lv or d0 != d1:
        out.append(V("C02", "violated", "live-set-changed", f"{lv}->{live(rec.post)} dims {d0}->{d1}", cell=cell, **sig))
    else:
        e = ref.maxdiff(r0, r1)
        if e > S.EXACT_TOL + contraction_slack(rec, r0, d0, lv):
            out.append(V("C02", "violated", "state-changed", f"maxabs={e:.3g}", cell=cell, **sig))
        else:
            # the blocks the call re-arranged must themselves be valid, correctly tagged states (judgements of later
            # calls are gated on that, so nobody else would look)
            bad = post_invalid(rec, sorted(addressed_set(rec) & set(live(rec.post)))) if rec.exc is None else []
            if bad:
                out.append(V("C02", "violated", "post-state-invalid", f"{bad[0][0]}: {bad[0][1]}", cell=cell, **sig))
            else:
                out.append(V("C02", "held", cell=cell, **sig))
    if st["k"] == "trace_out":
        tg = st["targets"]
        cell2 = ("trace_out-value", sig["via"], sig["storage"], sig["level"], sc, len(tg))
        if rec.exc is not None:
            out.append(V("C02", "violated", "spurious-exception", f"{rec.exc_type}: {rec.exc_msg}", cell=cell2, **sig))
        else:
            try:
                # Fock factors at the implementation's current (post-call) cutoff
                Dp = {n: d for n, d in impl_dims(rec.post).items() if d}
                want, wd = denote(rec.pre, tg, Dp)
                got = trace_value_dm(rec.ret, wd, rec.world.kind(tg[0]) if len(tg) == 1 else None)
                e = ref.maxdiff(got, want)
                if e > S.EXACT_TOL:
                    mode = "trace-value"
                    out.append(V("C02", "violated", mode, f"maxabs={e:.3g}", cell=cell2, **sig))
                else:
                    out.append(V("C02", "held", cell=cell2, **sig))
            except Malformed as e:
                out.append(V("C02", "violated", "trace-value-unreadable", str(e), cell=cell2, **sig))
    return out


def trace_value_dm(val, dims, kind1=None):
    """read the return value of trace_out as a density matrix over `dims`"""
    from pwv.world import state_repr, POLVEC
    k, p = state_repr(val)
    n = int(np.prod(dims))
    if k == "label":
        if not 0 <= p < n:
            raise Malformed("label out of range")
        v = np.zeros(n, complex)
        v[p] = 1
        return np.outer(v, v.conj())
    if k == "plabel":
        v = POLVEC[p]
        return np.outer(v, v.conj())
    if k == "vec":
        a = arr_np(p)
        if a.shape != (n, 1):
            raise Malformed(f"returned vector {a.shape} for dims {dims}")
        return np.outer(a[:, 0], a[:, 0].conj())
    if k == "mat":
        a = arr_np(p)
        if a.shape != (n, n):
            raise Malformed(f"returned matrix {a.shape} for dims {dims}")
        return a
    raise Malformed(f"trace_out returned {k}")


# --------------------------------------------------------------------------- C06


def judge_c06(rec):
    st = rec.step
    if st["k"] != "kraus" or st.get("fault") or st.get("dead_probe"):
        return []
    sig = step_sig(rec)
    sig["contraction"] = rec.contraction
    sc = state_class(rec, st["targets"])
    cell = ("kraus", sig["via"], sig["storage"], sig["level"], sc, len(st["targets"]), len(st["ops"]))
    if not pre_ok(rec):
        return [V("C06", "inconclusive", "pre-malformed", cell=cell, **sig)]
    try:
        exp = S.expected_kraus(rec)
    except S.Invalid as e:
        return [V("C06", "inconclusive", "invalid-request", str(e), cell=cell, **sig)]
    sig["state"] = sc
    if rec.exc is not None:
        return [V("C06", "violated", "spurious-exception", f"{rec.exc_type}: {rec.exc_msg}" + (" (operator list re-used from an earlier step)" if st.get("kraus_id") is not None else ""), cell=cell, **sig)]
    if rec.user_list_before is not None and rec.user_arrays is not None:
        now = [(id(x), tuple(getattr(x, "shape", ()))) for x in rec.user_arrays]
        if now != rec.user_list_before:
            return [V("C06", "violated", "operator-list-mutated", "the caller's list of Kraus operators was modified by apply_kraus (elements replaced / reshaped)", cell=cell, **sig)]
    try:
        got, gd = rho_post(rec, exp["names"])
    except Malformed as e:
        return [V("C06", "violated", "post-unreadable", str(e), cell=cell, **sig)]
    e = ref.maxdiff(got, exp["rho"])
    out = []
    if e > S.EXACT_TOL + contraction_slack(rec, exp["rho"], exp["dims"], exp["names"]):
        out.append(V("C06", "violated", "wrong-state", f"maxabs={e:.3g} trace={np.trace(got).real:.6g}", cell=cell, **sig))
    else:
        bad = post_invalid(rec, st["targets"])
        if bad:
            out.append(V("C06", "violated", "post-state-invalid", f"{bad[0][0]}: {bad[0][1]}", cell=cell, **sig))
        else:
            out.append(V("C06", "held", cell=cell, **sig))
    # level rule: a mixed block must be reported as a density matrix
    try:
        for b in blocks(rec.post):
            if any(t in b["members"] for t in st["targets"]):
                r, d = block_rho(b, rec.post)
                want, _ = denote_names_exp(exp, b["members"])
                if ref.purity(want) < 1 - 1e-4 and b["level"] != "M":
                    out.append(V("C06", "violated", "mixed-not-matrix", f"block level {b['level']}", cell=cell, **sig))
    except Malformed:
        pass
    return out


def denote_names_exp(exp, members):
    idx = [exp["names"].index(m) for m in members]
    return ref.reduced(exp["rho"], exp["dims"], idx), [exp["dims"][i] for i in idx]


# --------------------------------------------------------------------------- C04 / C05


def outcome_names(rec):
    """returned outcome dict -> {name: int}; also list of problems"""
    probs = []
    out = {}
    ret = rec.ret
    if rec.step["k"] == "povm":
        if not (isinstance(ret, tuple) and len(ret) == 2):
            return None, ["POVM did not return (outcome, dict)"]
        ret = ret[1]
    if not isinstance(ret, dict):
        return None, [f"returned {type(ret).__name__}, not a dict"]
    seen = set()
    for k, v in ret.items():
        n = rec.world.name(k)
        if n in out:
            probs.append(f"two entries for {n}")
        if id(k) in seen:
            probs.append("duplicate key object")
        seen.add(id(k))
        try:
            out[n] = int(v)
        except Exception:
            probs.append(f"non-integer outcome {v!r}")
    return out, probs


def assign_draws(rec, M, outcomes):
    """Match every sampler draw of a measure call with a member of the measured set.

    Returns (assignment list [(draw index, name, err)], problems list of (mode, detail))."""
    names = live(rec.pre)
    r, dims = rho_pre(rec, names)
    draws = rec.draws
    problems = []
    # validate p vectors
    for j, d in enumerate(draws):
        p = d["p"]
        if p is None or not np.all(np.isfinite(p)) or np.any(p < -1e-9) or p.sum() <= 0:
            problems.append(("bad-p", f"draw {j} at {d['caller']}: p={None if p is None else np.round(p, 6).tolist()}"))
    if problems:
        return [], problems

    order = []  # backtracking

    def cond_diag(assigned, name):
        """(conditional reduced diagonal, probability of the conditioning event)"""
        rr = r
        for n, o in assigned:
            rr = ref.project(rr, dims, names.index(n), o)
        tr = np.trace(rr).real
        if tr < 1e-14:
            return None, tr
        return ref.diag_probs(rr, dims, names.index(name)) / tr, tr

    best = {"n": -1, "msg": None}

    def bt(j, assigned, used):
        if j == len(draws):
            return list(assigned)
        d = draws[j]
        pn = d["p"] / d["p"].sum()
        cands = [m for m in M if dims[names.index(m)] == len(pn)]
        # (a member that was already drawn may be drawn again: its conditional distribution is then one-hot)
        cands.sort(key=lambda m: m in used)
        # prefer the member whose reported outcome equals the drawn index
        cands.sort(key=lambda m: 0 if outcomes.get(m) == d["idx"] else 1)
        for m in cands:
            if outcomes.get(m) != d["idx"]:
                continue
            cd, ptr = cond_diag(assigned, m)
            if cd is None:
                continue
            err = float(np.max(np.abs(cd - pn)))
            # conditioning on an unlikely earlier outcome divides by its probability: rounding errors grow with 1/p
            if err <= 1e-7 + 1e-13 / max(ptr, 1e-14):
                res = bt(j + 1, assigned + [(m, d["idx"])], used | {m})
                if res is not None:
                    return res
            else:
                if j > best["n"]:
                    best["n"] = j
                    best["msg"] = (f"draw {j} at {d['caller']}: p={np.round(pn, 6).tolist()} but reduced diagonal of "
                                   f"{m} is {np.round(cd, 6).tolist()}")
        if j > best["n"] and not cands:
            best["n"] = j
            best["msg"] = f"draw {j} at {d['caller']} over {len(pn)} outcomes matches no member of the measured set {M}"
        return None

    res = bt(0, [], frozenset())
    if res is None:
        problems.append(("wrong-prob", best["msg"] or "no consistent assignment of draws to measured subsystems"))
        return [], problems
    return res, problems


def judge_measure(rec, prop):
    """C04 (prop == 'C04') and C05 (prop == 'C05') for projective measurement steps"""
    st = rec.step
    if st["k"] != "measure" or st.get("fault") or st.get("dead_probe"):
        return []
    M = S.measured_set(rec)
    sig = step_sig(rec, M or st.get("targets", []))
    sig["contraction"] = rec.contraction
    sc = state_class(rec, M) if M else "-"
    cell = ("measure", sig["via"], sig["storage"], sig["level"], sc, sig["flags"], sig["kinds"])
    if not pre_ok(rec):
        return [V(prop, "inconclusive", "pre-malformed", cell=cell, **sig)]
    sig["state"] = sc
    if not M:
        return [V(prop, "inconclusive", "empty-measured-set", cell=cell, **sig)]
    out = []
    if rec.exc is not None:
        if prop == "C05":
            return [V(prop, "violated", "spurious-exception", f"{rec.exc_type}: {rec.exc_msg}", cell=cell, **sig)]
        # C04 speaks only about draws that happened
        if not rec.draws:
            return [V(prop, "inconclusive", "raised-before-draw", cell=cell, **sig)]
    outcomes, oprob = outcome_names(rec) if rec.exc is None else ({}, [])
    if outcomes is None:
        return [V(prop, "violated" if prop == "C05" else "inconclusive", "bad-return", "; ".join(oprob), cell=cell, **sig)]
    names = live(rec.pre)
    if prop == "C04":
        if rec.exc is not None:
            # only validity of p can be judged
            asg, problems = assign_draws(rec, M, {m: d["idx"] for m, d in zip(M, rec.draws)})
            bad = [p for p in problems if p[0] == "bad-p"]
            if bad:
                return [V(prop, "violated", "bad-p", bad[0][1], cell=cell, **sig)]
            return [V(prop, "inconclusive", "raised", cell=cell, **sig)]
        # reported outcomes must have non-zero probability
        known = {n: o for n, o in outcomes.items() if n in names}
        e = S.expected_measure(rec, known)
        asg, problems = assign_draws(rec, [m for m in M if m in outcomes] or M, outcomes)
        # independent draws: the conditional distributions are only the Born rule for the joint outcome if
        # every draw of the call is an independent sample, i.e. uses its own key
        keys = [d.get("key") for d in rec.draws if d.get("key") is not None]
        if len(set(keys)) != len(keys):
            problems = list(problems) + [("key-reused-within-call", f"{len(keys)} draws of one measure call used {len(set(keys))} distinct keys: the outcomes are not independent samples")]
        if getattr(rec, "key_reused", None):
            problems = list(problems) + [("key-reused-across-calls", f"{len(rec.key_reused)} draw(s) at {rec.key_reused[0]['caller']} used a key that an earlier call of this program had already used: not an independent sample")]
        for mode, det in problems:
            out.append(V(prop, "violated", mode, det, cell=cell, ndraws=len(rec.draws), **sig))
        if not problems:
            # every drawn index matched the reference conditional distribution, so it had non-zero probability there
            # (the joint probability of several unlikely outcomes may legitimately be tiny); what remains to be
            # checked are the outcomes reported WITHOUT a draw
            if True:
                # members without a draw must be deterministic
                drawn = {n for n, _ in asg}
                r, dims = rho_pre(rec, names)
                rr = r
                bad = None
                for n, o in known.items():
                    if n in drawn:
                        rr = ref.project(rr, dims, names.index(n), o)
                tr = np.trace(rr).real
                for n, o in known.items():
                    if n not in drawn and tr > 1e-9:
                        cd = ref.diag_probs(rr, dims, names.index(n)) / tr
                        if o >= len(cd) or cd[o] < 1 - 1e-7 - 1e-13 / tr:
                            bad = f"{n} reported {o} without a random draw although its conditional distribution is {np.round(cd, 6).tolist()}"
                if bad:
                    out.append(V(prop, "violated", "missing-draw", bad, cell=cell, **sig))
                else:
                    out.append(V(prop, "held", cell=cell, ndraws=len(rec.draws), **sig))
        return out
    # ---------------- C05
    for p in oprob:
        out.append(V(prop, "violated", "bad-return", p, cell=cell, **sig))
    if set(outcomes) != set(M):
        out.append(V(prop, "violated", "outcome-keys", f"reported {sorted(outcomes)} but specified measured set is {sorted(M)}", cell=cell, **sig))
        return out
    e = S.expected_measure(rec, outcomes)
    if e["rho"] is None:
        return out + [V(prop, "inconclusive", "zero-prob-branch", cell=cell, **sig)]
    destr = st.get("destr", True)
    # fate of measured subsystems
    post = rec.post
    for n in M:
        sub = post.subs[n]
        kind = rec.world.kind(n)
        if destr and kind in ("F", "P"):
            if not sub["measured"] or sub["state"][0] != "none" or sub["index"] is not None:
                out.append(V(prop, "violated", "not-retired", f"{n}: measured={sub['measured']} state={sub['state'][0]} index={sub['index']}", cell=cell, **sig))
        else:
            if sub["measured"]:
                out.append(V(prop, "violated", "wrongly-destroyed", f"{n} destroyed by a {'destructive' if destr else 'non-destructive'} measurement", cell=cell, **sig))
    for n in names:
        if n not in M and post.subs[n]["measured"]:
            out.append(V(prop, "violated", "bystander-destroyed", f"{n}", cell=cell, **sig))
    if any(v["status"] == "violated" for v in out):
        return out
    try:
        # destroyed subsystems must be in no block
        for b in blocks(post):
            pass
        got, gd = rho_post(rec, e["names"])
    except Malformed as ex:
        return out + [V(prop, "violated", "post-unreadable", str(ex), cell=cell, **sig)]
    if gd != e["dims"]:
        return out + [V(prop, "violated", "post-dims", f"{gd} vs {e['dims']}", cell=cell, **sig)]
    err = ref.maxdiff(got, e["rho"])
    if e["prob"] < 1e-9:
        return out + [V(prop, "inconclusive", "tiny-branch", f"p={e['prob']:.3g}", cell=cell, **sig)]
    # the collapsed state is divided by the outcome probability: rounding errors grow with 1/p
    if err > S.EXACT_TOL + 1e-13 / e["prob"] + contraction_slack(rec, e["rho"], e["dims"], e["names"]):
        out.append(V(prop, "violated", "wrong-collapse", f"maxabs={err:.3g} (p={e['prob']:.3g})", cell=cell, **sig))
    else:
        bad = post_invalid(rec, e["names"])
        if bad:
            out.append(V(prop, "violated", "post-state-invalid", f"{bad[0][0]}: {bad[0][1]}", cell=cell, **sig))
        else:
            out.append(V(prop, "held", cell=cell, **sig))
    return out


def judge_dead_probe(rec):
    """C05: a request on a destroyed subsystem must fail and change nothing"""
    st = rec.step
    if not st.get("dead_probe"):
        return []
    sig = step_sig(rec)
    cell = ("dead-probe", st["k"], sig["via"])
    if rec.exc is None:
        return [V("C05", "violated", "dead-request-answered", f"{st['k']} via {st.get('via')} on destroyed {st.get('targets')} returned {type(rec.ret).__name__}", cell=cell, **sig)]
    try:
        r0, d0 = rho_pre(rec)
        r1, d1 = rho_post(rec)
        if live(rec.pre) != live(rec.post) or d0 != d1 or ref.maxdiff(r0, r1) > S.EXACT_TOL:
            return [V("C05", "violated", "dead-request-changed-state", "", cell=cell, **sig)]
    except Malformed as e:
        return [V("C05", "violated", "dead-request-corrupted", str(e), cell=cell, **sig)]
    return [V("C05", "held", cell=cell, **sig)]


# --------------------------------------------------------------------------- C09


_PARTNER_FATE = {}


def judge_c09(rec):
    st = rec.step
    if st["k"] != "povm" or st.get("fault") or st.get("dead_probe"):
        return []
    tg = st["targets"]
    sig = step_sig(rec)
    sig["contraction"] = rec.contraction
    sc = state_class(rec, tg)
    cell = ("povm", sig["via"], sig["storage"], sig["level"], sc, sig["flags"], sig["kinds"], st.get("povm_kind", "?"))
    if not pre_ok(rec):
        return [V("C09", "inconclusive", "pre-malformed", cell=cell, **sig)]
    try:
        exp = S.expected_povm(rec)
    except S.Invalid as e:
        return [V("C09", "inconclusive", "invalid-request", str(e), cell=cell, **sig)]
    sig["state"] = sc
    sig["povm_kind"] = st.get("povm_kind", "?")
    if rec.exc is not None:
        return [V("C09", "violated", "spurious-exception", f"{rec.exc_type}: {rec.exc_msg}", cell=cell, **sig)]
    out = []
    ret = rec.ret
    if not (isinstance(ret, tuple) and len(ret) == 2 and isinstance(ret[1], dict)):
        return [V("C09", "violated", "bad-return", repr(type(ret)), cell=cell, **sig)]
    k = int(ret[0])
    nops = len(st["ops"])
    # the POVM draw: the draw over nops outcomes
    pd = [d for d in rec.draws if d["p"] is not None and len(d["p"]) == nops]
    if getattr(rec, "key_reused", None):
        out.append(V("C09", "violated", "key-reused-across-calls", f"draw at {rec.key_reused[0]['caller']} used a key that an earlier call of this program had already used: the outcome is not an independent sample of p", cell=cell, **sig))
    if not pd:
        out.append(V("C09", "violated", "missing-draw", "no random draw over the operator set", cell=cell, **sig))
    else:
        d = pd[0]
        p = d["p"]
        if not np.all(np.isfinite(p)) or p.sum() <= 0 or np.any(p < -1e-9):
            out.append(V("C09", "violated", "bad-p", f"p={p.tolist()}", cell=cell, **sig))
        else:
            pn = p / p.sum()
            want = exp["probs"] / exp["probs"].sum()
            err = float(np.max(np.abs(pn - want)))
            if err > 1e-7:
                out.append(V("C09", "violated", "wrong-prob", f"p={np.round(pn, 6).tolist()} want={np.round(want, 6).tolist()}", cell=cell, **sig))
            if d["idx"] != k:
                out.append(V("C09", "violated", "outcome-mismatch", f"returned {k} but drew {d['idx']}", cell=cell, **sig))
    if not (0 <= k < nops) or exp["posts"][k] is None:
        out.append(V("C09", "violated" if 0 <= k < nops else "violated", "zero-prob-outcome", f"outcome {k}", cell=cell, **sig))
        return out
    names = exp["names"]
    dims = exp["dims"]
    rk = exp["posts"][k]
    destr = st.get("destr", True)
    post = rec.post
    others, oprob = outcome_names(rec)
    for pmsg in oprob:
        out.append(V("C09", "violated", "bad-return", pmsg, cell=cell, **sig))
    others = others or {}
    w = rec.world
    # fates
    gone = []
    for n in names:
        dead = post.subs[n]["measured"]
        if not destr:
            if dead:
                out.append(V("C09", "violated", "nondestructive-destroyed", f"{n} destroyed in non-destructive mode", cell=cell, **sig))
                gone.append(n)
            continue
        if n in tg:
            if w.kind(n) in ("F", "P"):
                if not dead:
                    out.append(V("C09", "violated", "target-not-retired", n, cell=cell, **sig))
                else:
                    gone.append(n)
            elif dead:
                out.append(V("C09", "violated", "custom-destroyed", n, cell=cell, **sig))
        else:
            partner_of_target = w.partner(n) in tg
            if dead and partner_of_target and st.get("partial"):
                out.append(V("C09", "violated", "partial-ignored", f"measure_POVM(partial=True) on {tg[0]} also destroyed its envelope partner {n}", cell=cell, **sig))
                gone.append(n)
            elif dead and not (partner_of_target and n in others):
                out.append(V("C09", "violated", "bystander-destroyed", f"{n} destroyed (reported={n in others})", cell=cell, **sig))
                gone.append(n)
            elif dead:
                gone.append(n)
    if not destr and others:
        out.append(V("C09", "violated", "nondestructive-extra-outcomes", f"{sorted(others)}", cell=cell, **sig))
    for n in others:
        if n in tg or not (w.partner(n) in tg):
            out.append(V("C09", "violated", "unexpected-outcome-key", n, cell=cell, **sig))
    sig["partner_fate"] = "measured" if any(w.partner(n) in tg for n in others) else "kept"
    # sameness across entry points and layouts: whenever a destructively measured Fock/Polarization has a live
    # envelope partner that is not itself a target, the partner's fate (measured+reported, or kept alive) must be
    # the same on every route this run takes
    if destr and not st.get("partial") and not any(v["status"] == "violated" for v in out):
        for t in tg:
            pt = w.partner(t)
            if pt and pt in names and pt not in tg and w.kind(t) in ("F", "P"):
                fate = "measured" if pt in others else "kept"
                route = f"{sig['via']}/{sig['storage']}/{sig['level']}"
                first = _PARTNER_FATE.setdefault("first", (fate, route))
                if first[0] != fate:
                    out.append(V("C09", "violated", "partner-fate-differs-by-route",
                                 f"destructive POVM on {t}: partner {pt} was {fate} via {route}, but {first[0]} via {first[1]}", cell=cell, **sig))
                break
    if any(v["status"] == "violated" and v["mode"] in ("nondestructive-destroyed", "bystander-destroyed", "unexpected-outcome-key") for v in out):
        return out
    # expected state of survivors: project partners that were reported, trace out everything destroyed
    pk = float(exp["probs"][k] / max(exp["probs"].sum(), 1e-300))
    r = rk
    for n, o in others.items():
        if n in names and n not in tg:
            a = names.index(n)
            if not (0 <= o < dims[a]):
                out.append(V("C09", "violated", "zero-prob-outcome", f"{n}={o}", cell=cell, **sig))
                return out
            r = ref.project(r, dims, a, o)
            tr = np.trace(r).real
            if tr < 1e-12:
                out.append(V("C09", "violated", "zero-prob-outcome", f"partner {n}={o} has probability {tr:.3g}", cell=cell, **sig))
                return out
            r = r / tr
            pk *= tr
    keep = [n for n in names if n not in gone]
    want = ref.reduced(r, dims, [names.index(n) for n in keep])
    try:
        got, gd = rho_post(rec, keep)
    except Malformed as e:
        return out + [V("C09", "violated", "post-unreadable", str(e), cell=cell, **sig)]
    err = ref.maxdiff(got, want)
    if pk < 1e-9:
        return out + [V("C09", "inconclusive", "tiny-branch", f"p={pk:.3g}", cell=cell, **sig)]
    if err > S.EXACT_TOL + 1e-13 / pk + contraction_slack(rec, want, [dims[names.index(n)] for n in keep], keep):
        out.append(V("C09", "violated", "wrong-post-state", f"maxabs={err:.3g} (p={pk:.3g})", cell=cell, **sig))
    if not any(v["status"] == "violated" for v in out):
        bad = post_invalid(rec, keep)
        if bad:
            out.append(V("C09", "violated", "post-state-invalid", f"{bad[0][0]}: {bad[0][1]}", cell=cell, **sig))
        else:
            out.append(V("C09", "held", cell=cell, **sig))
    return out


# --------------------------------------------------------------------------- C07 / C13 / C20


def judge_c07(rec):
    if rec.exc is not None or rec.step.get("fault"):
        return []
    sig = step_sig(rec)
    sig["contraction"] = rec.contraction
    cell = (sig["kind"], sig.get("op", "-"), sig["via"], sig["storage"], sig["level"], rec.contraction)
    if wellformed.c07(rec.pre):
        return [V("C07", "inconclusive", "pre-invalid", cell=cell, **sig)]
    probs = wellformed.c07(rec.post)
    if not probs:
        return [V("C07", "held", cell=cell, **sig)]
    out = []
    for mode, det in probs[:3]:
        out.append(V("C07", "violated", mode, det, cell=cell, **sig))
    return out


def judge_c13(rec):
    sig = step_sig(rec)
    cell = (sig["kind"], sig["via"], sig["storage"], rec.exc is not None, len(rec.world.ces))
    if wellformed.c13(rec.pre, rec.world):
        return [V("C13", "inconclusive", "pre-malformed", cell=cell, **sig)]
    probs = wellformed.c13(rec.post, rec.world)
    out = []
    for mode, det in probs[:3]:
        out.append(V("C13", "violated", mode, det, cell=cell, **sig))
    # unrelated composites untouched
    for mode, det in wellformed.unrelated_changed(rec):
        out.append(V("C13", "violated", mode, det, cell=cell, **sig))
    # the indices must name the place where the data really is: after a pure bookkeeping call every subsystem's
    # reduced state, read through the (new) indices and member order, is what it was before
    if not out and rec.step["k"] in ("combine", "reorder", "composite") and rec.exc is None:
        try:
            if not wellformed.c07(rec.pre):
                lv = live(rec.pre)
                if lv == live(rec.post):
                    D = rec_dims(rec)
                    for n in lv:
                        a, _ = denote(rec.pre, [n], D)
                        b, _ = denote(rec.post, [n], D)
                        if ref.maxdiff(a, b) > S.EXACT_TOL:
                            out.append(V("C13", "violated", "index-contradicts-data",
                                         f"after {rec.step['k']} the state found at the place {n}'s index names is not {n}'s state (maxabs={ref.maxdiff(a, b):.3g})", cell=cell, **sig))
                            break
        except Malformed:
            pass
    if not out:
        out.append(V("C13", "held", cell=cell, **sig))
    return out


def addressed_set(rec):
    """subsystems an action addresses (targets plus partners where the call is specified to include them)"""
    st = rec.step
    w = rec.world
    k = st["k"]
    if k == "measure":
        return set(S.measured_set(rec)) | set(st.get("targets", []))
    if k == "composite":
        return set()
    A = set(st.get("targets", []))
    if st.get("via") == "env" and k in ("combine", "expand", "contract", "resize"):
        e = st["env"]
        if k == "resize":
            A.add(e + ".f")
        else:
            A |= {e + ".f", e + ".p"}
    if st.get("via") == "env" and k in ("measure",) and not st.get("targets"):
        A |= {st["env"] + ".f", st["env"] + ".p"}
    if k == "povm" and st.get("destr", True) and not st.get("partial"):
        # partners may legitimately be measured in destructive mode (C09)
        for t in list(A):
            p = w.partner(t)
            if p:
                A.add(p)
    return A


def judge_c20(rec):
    st = rec.step
    if st["k"] in ("config",):
        return []
    sig = step_sig(rec)
    A = addressed_set(rec)
    try:
        b0 = blocks(rec.pre)
        b1 = blocks(rec.post)
    except Malformed:
        return [V("C20", "inconclusive", "malformed", cell=(st["k"],), **sig)]
    cell = (st["k"], sig["via"], sig["storage"], len(b0), len(A), rec.exc is not None)
    out = []
    key1 = {tuple(b["members"]): b for b in b1}
    where1 = {}
    for b in b1:
        for m in b["members"]:
            where1[m] = b
    hit_members = set()
    nby = 0
    for b in b0:
        if A & set(b["members"]):
            hit_members |= set(b["members"])
            continue
        nby += 1
        nb = key1.get(tuple(b["members"]))
        if nb is None:
            cur = [where1[m]["members"] if m in where1 else None for m in b["members"]]
            out.append(V("C20", "violated", "bystander-regrouped", f"block {b['members']} (untouched by {sorted(A)}) is now {cur}", cell=cell, **sig))
            continue
        if nb["kind"] != b["kind"] or nb["level"] != b["level"] or nb["state"][0] != b["state"][0]:
            out.append(V("C20", "violated", "bystander-representation", f"block {b['members']}: {b['kind']}/{b['level']} -> {nb['kind']}/{nb['level']}", cell=cell, **sig))
            continue
        s0, s1 = b["state"][1], nb["state"][1]
        if s0 is s1:
            continue
        if b["state"][0] in ("vec", "mat"):
            a0, a1 = np.asarray(s0), np.asarray(s1)
            if a0.shape != a1.shape or a0.dtype != a1.dtype or a0.tobytes() != a1.tobytes():
                out.append(V("C20", "violated", "bystander-modified", f"block {b['members']} amplitudes changed (max {ref.maxdiff(a0.astype(complex), a1.astype(complex)) if a0.shape == a1.shape else 'shape'})", cell=cell, **sig))
        elif s0 != s1:
            out.append(V("C20", "violated", "bystander-modified", f"block {b['members']} label {s0}->{s1}", cell=cell, **sig))
    # a block that was merged into another one ceases to exist: its old container no longer holds data
    for b in b0:
        if not (A & set(b["members"])) or rec.exc is not None:
            continue
        if any(m in where1 and where1[m]["key"] != b["key"] for m in b["members"]):
            if b["kind"] == "env":
                en = b["key"][1]
                if rec.post.envs[en]["state"][0] != "none":
                    out.append(V("C20", "violated", "merged-block-not-dissolved", f"envelope {en} still holds an array although {b['members']} moved to {[where1[m]['members'] for m in b['members'] if m in where1][:1]}", cell=cell, **sig))
            elif b["kind"] == "own":
                m = b["members"][0]
                if rec.post.subs[m]["state"][0] != "none" and where1[m]["kind"] != "own":
                    out.append(V("C20", "violated", "merged-block-not-dissolved", f"{m} still holds its own state although it is now stored in {where1[m]['members']}", cell=cell, **sig))
    # a post block must not mix hit members with bystanders
    for b in b1:
        ms = set(b["members"])
        if ms & hit_members and ms - hit_members:
            out.append(V("C20", "violated", "merged-bystander", f"block {b['members']} mixes addressed blocks with bystanders {sorted(ms - hit_members)}", cell=cell, **sig))
    # single-subsystem action never enlarges its block
    if len(A) == 1 and st["k"] in ("apply", "kraus", "povm", "resize", "expand", "contract", "trace_out", "measure"):
        t = next(iter(A))
        pre_sz = next((len(b["members"]) for b in b0 if t in b["members"]), 0)
        post_sz = next((len(b["members"]) for b in b1 if t in b["members"]), 0)
        if post_sz > pre_sz:
            out.append(V("C20", "violated", "single-enlarged", f"{t}: block size {pre_sz}->{post_sz}", cell=cell, **sig))
    # multi-subsystem action merges exactly the blocks of its operands
    if (st["k"] in ("apply", "kraus", "povm") or (st["k"] == "combine" and st.get("via") == "ce")) and len(st.get("targets", [])) > 1 and rec.exc is None:
        tg = [t for t in st["targets"] if t in where1]
        if tg:
            bs = {id(where1[t]) for t in tg}
            if len(bs) > 1:
                out.append(V("C20", "violated", "operands-not-joined", f"{tg} still in {len(bs)} blocks", cell=cell, **sig))
    # measured subsystem leaves its product space
    if st["k"] == "measure" and rec.exc is None:
        for m in S.measured_set(rec):
            if m in where1 and len(where1[m]["members"]) > 1:
                out.append(V("C20", "violated", "measured-still-in-block", f"{m} in {where1[m]['members']}", cell=cell, **sig))
    if not out:
        out.append(V("C20", "held", cell=cell, nby=nby, **sig))
    return out
