"""Known-findings file handling.

known_findings.jsonl (committed; never written at run time), one JSON object per line:
  {"kind": "finding", "property": "C04", "id": "...", "line": "KNOWN-FINDING: property=C04 ...",
   "match": {"mode": [...], "frame": "...", "level": "V", ...}}
  {"kind": "fixed", "property": "C07", "line": "fixed: property=C07 <commit> ..."}

A violation is a known finding iff every key of `match` agrees with the violation's mode/signature
(value or list of allowed values; "*" suffix = prefix match).  `fixed` entries match nothing.
"""
import json
import os

from pwv import env as _env

PATH = os.path.join(_env.VERIF, "known_findings.jsonl")


def load(prop=None):
    out = []
    if not os.path.exists(PATH):
        return out
    with open(PATH) as f:
        for ln in f:
            ln = ln.strip()
            if not ln or ln.startswith("#"):
                continue
            e = json.loads(ln)
            if prop is None or e.get("property") == prop:
                out.append(e)
    return out


def _m(want, got):
    got = "" if got is None else str(got)
    if isinstance(want, list):
        return any(_m(w, got) for w in want)
    want = str(want)
    if want.endswith("*"):
        return got.startswith(want[:-1])
    return want == got


def matches(entry, viol):
    if entry.get("kind") != "finding":
        return False
    if entry.get("property") != viol["prop"]:
        return False
    fields = dict(viol["sig"])
    fields["mode"] = viol["mode"]
    fields["detail"] = viol.get("detail", "")
    for k, want in entry.get("match", {}).items():
        if k == "detail_contains":
            if not any(w in fields["detail"] for w in (want if isinstance(want, list) else [want])):
                return False
            continue
        if not _m(want, fields.get(k)):
            return False
    return True


def classify(prop, violations):
    """-> (unknown violations, {finding id: (entry, count)})"""
    entries = load(prop)
    hits = {}
    unknown = []
    for v in violations:
        e = next((e for e in entries if matches(e, v)), None)
        if e is None:
            unknown.append(v)
        else:
            h = hits.setdefault(e["id"], [e, 0])
            h[1] += v.get("count", 1)
    return unknown, hits, [e for e in entries if e.get("kind") == "finding"]
