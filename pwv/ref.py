"""Independent dense reference semantics (numpy/scipy only; shares no code with photon_weave)."""
import numpy as np


class RefError(Exception):
    pass


def tens(rho, dims):
    return rho.reshape(*dims, *dims)


def apply_local(rho, dims, Ks, targets):
    """sum_k (K x I) rho (K x I)^dagger; K's tensor factors bound to `targets` (axis numbers) in order."""
    n = len(dims)
    t = tens(rho, dims)
    td = [dims[i] for i in targets]
    k = len(targets)
    out = np.zeros_like(t, dtype=complex)
    for K in Ks:
        K = np.asarray(K, complex)
        if K.shape != (int(np.prod(td)),) * 2:
            raise RefError(f"operator shape {K.shape} vs target dims {td}")
        Kt = K.reshape(*td, *td)
        r = np.tensordot(Kt, t, axes=(list(range(k, 2 * k)), list(targets)))
        r = np.moveaxis(r, list(range(k)), list(targets))
        r = np.tensordot(Kt.conj(), r, axes=(list(range(k, 2 * k)), [n + i for i in targets]))
        r = np.moveaxis(r, list(range(k)), [n + i for i in targets])
        out = out + r
    N = int(np.prod(dims))
    return out.reshape(N, N)


def reduced(rho, dims, keep):
    """partial trace keeping axes `keep` in that order"""
    n = len(dims)
    t = tens(rho, dims)
    drop = [i for i in range(n) if i not in keep]
    sub_in = list(range(n)) + [(i if i in drop else n + i) for i in range(n)]
    sub_out = list(keep) + [n + i for i in keep]
    r = np.einsum(t, sub_in, sub_out)
    d = int(np.prod([dims[i] for i in keep])) if keep else 1
    return r.reshape(d, d)


def diag_probs(rho, dims, i):
    return np.real(np.diag(reduced(rho, dims, [i])))


def project(rho, dims, i, outcome):
    """(unnormalised) P rho P with P=|o><o| on axis i"""
    P = np.zeros((dims[i], dims[i]), complex)
    P[outcome, outcome] = 1
    return apply_local(rho, dims, [P], [i])


def normalise(rho):
    tr = np.trace(rho).real
    if not np.isfinite(tr) or tr <= 0:
        raise RefError(f"trace {tr}")
    return rho / tr


def purity(rho):
    return float(np.real(np.vdot(rho.conj().T, rho)))


def maxdiff(a, b):
    if a.shape != b.shape:
        return float("inf")
    if a.size == 0:
        return 0.0
    d = np.abs(a - b)
    if not np.all(np.isfinite(d)):
        return float("inf")
    return float(d.max())


def haar_unitary(rng, d):
    z = (rng.standard_normal((d, d)) + 1j * rng.standard_normal((d, d))) / np.sqrt(2)
    q, r = np.linalg.qr(z)
    ph = np.diag(r) / np.abs(np.diag(r))
    return q * ph


def haar_vec(rng, d):
    v = rng.standard_normal(d) + 1j * rng.standard_normal(d)
    return v / np.linalg.norm(v)


def random_mixed(rng, d, rank=None):
    rank = rank or int(rng.integers(2, d + 1))
    A = rng.standard_normal((d, rank)) + 1j * rng.standard_normal((d, rank))
    r = A @ A.conj().T
    return r / np.trace(r).real


def kraus_from_dilation(rng, d, nk):
    """nk Kraus operators of a random CPTP map on dimension d from a Haar isometry"""
    U = haar_unitary(rng, d * nk)
    V = U[:, :d]  # isometry (d*nk) x d
    return [V[k * d:(k + 1) * d, :] for k in range(nk)]


def povm_set(rng, d, n, projective=False):
    """complete set of n measurement operators M_i with sum M_i^dag M_i = I.

    non-projective: M_i = U_i sqrt(E_i) with random unitaries U_i, so Tr(E rho) / Tr(M rho M^dag) /
    M rho M vs M rho M^dag are all distinguishable."""
    if projective:
        U = haar_unitary(rng, d)
        n = min(n, d)
        # group basis vectors into n projectors
        groups = [[] for _ in range(n)]
        for i in range(d):
            groups[i % n].append(i)
        return [sum(np.outer(U[:, i], U[:, i].conj()) for i in g) for g in groups]
    Ks = kraus_from_dilation(rng, d, n)
    return Ks
