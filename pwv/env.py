"""Process environment for every pwv worker: import-root pinning, JAX settings, .deps.

Must be imported (and `setup()` called) before anything imports jax or photon_weave.
"""
import os
import sys
import subprocess

VERIF = os.path.dirname(os.path.dirname(os.path.abspath(__file__)))
REPO = os.path.abspath(os.environ.get("PWV_REPO", "/repo"))
DEPS = os.path.join(VERIF, ".deps")
CACHE = os.path.join(VERIF, ".cache", "jax")
GUARD = "PHOTON_WEAVE_VERIF"
PY = "/venv/bin/python"

_done = False


def child_env(extra=None):
    """Environment for worker subprocesses."""
    e = dict(os.environ)
    # numeric precision is the library's business (it switches jax to 64 bit when imported): do not preset it
    e.pop("JAX_ENABLE_X64", None)
    e.update(
        {
            GUARD: "1",
            "PYTHONHASHSEED": "0",
            "JAX_PLATFORMS": "cpu",
            "OMP_NUM_THREADS": "1",
            "OPENBLAS_NUM_THREADS": "1",
            "MKL_NUM_THREADS": "1",
            "XLA_FLAGS": "--xla_cpu_multi_thread_eigen=false intra_op_parallelism_threads=1",
            "JAX_COMPILATION_CACHE_DIR": CACHE,
            "JAX_PERSISTENT_CACHE_MIN_COMPILE_TIME_SECS": "0",
            "JAX_PERSISTENT_CACHE_MIN_ENTRY_SIZE_BYTES": "-1",
            "PYTHONPATH": os.pathsep.join([REPO, VERIF]),
            "PWV_REPO": REPO,
            "PYTHONDONTWRITEBYTECODE": "1",
        }
    )
    if extra:
        e.update(extra)
    return e


def ensure_deps():
    """icontract lives in the git-ignored .deps; (re)install offline if missing."""
    if os.path.isdir(os.path.join(DEPS, "icontract")):
        return True
    os.makedirs(DEPS, exist_ok=True)
    import fcntl

    with open(os.path.join(VERIF, ".deps.lock"), "w") as lk:
        fcntl.flock(lk, fcntl.LOCK_EX)
        if os.path.isdir(os.path.join(DEPS, "icontract")):
            return True
        r = subprocess.run(
            [PY, "-m", "pip", "install", "-q", "--no-index", "--find-links",
             "/opt/veriftools/wheels", "--target", DEPS, "icontract"],
            capture_output=True, text=True,
        )
        return r.returncode == 0


def setup():
    global _done
    if _done:
        return
    _done = True
    os.makedirs(CACHE, exist_ok=True)
    for k, v in child_env().items():
        if k in ("PYTHONPATH",):
            continue
        os.environ[k] = v
    # repo root first, deps last (never shadow the venv's own packages)
    if REPO not in sys.path:
        sys.path.insert(0, REPO)
    if VERIF not in sys.path:
        sys.path.insert(1, VERIF)
    if DEPS not in sys.path:
        sys.path.append(DEPS)
    import photon_weave  # noqa

    root = os.path.dirname(os.path.dirname(os.path.abspath(photon_weave.__file__)))
    if os.path.realpath(root) != os.path.realpath(REPO):
        raise RuntimeError(f"photon_weave imported from {root}, expected {REPO}")


def repo_info():
    def g(*a):
        try:
            return subprocess.run(["git", "-C", REPO, *a], capture_output=True, text=True, timeout=20).stdout.strip()
        except Exception:
            return ""
    return {"repo_root": REPO, "repo_head": g("rev-parse", "HEAD"), "dirty": bool(g("status", "--porcelain", "--untracked-files=no"))}
