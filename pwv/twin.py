"""Twin-run drivers: the same JSON program executed in two or three variants whose recorded logs are
compared offline, step by step (metamorphic oracles; no reference model needed).

  C08b  contraction on / off / toggled
  C15   one Operation object reused / fresh objects / unrelated operations in between
  C18   coinciding local states / the same states made value-distinct by global phases
"""
import copy
import time

import numpy as np

from pwv import env as _env

_env.setup()

from pwv import instrument, ref  # noqa: E402
from pwv.gen import Gen  # noqa: E402
from pwv.run import Runner  # noqa: E402
from pwv.world import Malformed, TooBig, blocks, c2j, denote, impl_dims, j2c, live  # noqa: E402
from pwv.oracles import outcome_names  # noqa: E402
from pwv import wellformed  # noqa: E402


def V(prop, ok, mode, detail, cell, **sig):
    return {"prop": prop, "status": "held" if ok else "violated", "mode": "" if ok else mode, "detail": detail,
            "cell": cell, "sig": sig}


def INC(prop, mode, cell=None):
    return {"prop": prop, "status": "inconclusive", "mode": mode, "detail": "", "cell": cell, "sig": {}}


def summary(rec):
    """what a twin comparison needs from one executed step"""
    s = {"raised": rec.exc is not None, "exc": rec.exc_type, "frame": rec.exc_frame, "kind": rec.step["k"]}
    s["outcomes"] = None
    if rec.exc is None and rec.step["k"] in ("measure", "povm"):
        o, _ = outcome_names(rec)
        s["outcomes"] = o
        if rec.step["k"] == "povm" and isinstance(rec.ret, tuple):
            s["povm"] = int(rec.ret[0])
    s["draws"] = [None if d["p"] is None else np.asarray(d["p"], float) for d in rec.draws]
    s["idx"] = [d["idx"] for d in rec.draws]
    try:
        s["live"] = live(rec.post)
        s["dims"] = impl_dims(rec.post)
        s["snap"] = rec.post
        # only what makes the denotation meaningless stops a twin comparison (a stale member level tag does not)
        s["valid"] = not [m for m, _ in wellformed.c07(rec.post) if m != "member-level"]
    except Exception:  # noqa: BLE001
        s["live"] = None
    try:
        s["blocks"] = sorted(tuple(sorted(b["members"])) for b in blocks(rec.post))
    except Malformed:
        s["blocks"] = None
    if rec.step["k"] == "trace_out" and rec.exc is None:
        s["ret"] = rec.ret
    return s


def same_state(sa, sb, tol=1e-8):
    """(verdict, detail): joint states of two runs after the same step; Fock cutoffs may differ between runs"""
    if sa["live"] is None or sb["live"] is None:
        return None, "unreadable"
    if sa["live"] != sb["live"]:
        return False, f"live sets differ: {sa['live']} vs {sb['live']}"
    D = {}
    for d in (sa["dims"], sb["dims"]):
        for n, x in d.items():
            if x:
                D[n] = max(D.get(n, 0), x)
    try:
        ra, da = denote(sa["snap"], None, D)
        rb, db = denote(sb["snap"], None, D)
    except Malformed as e:
        return None, f"malformed: {e}"
    except TooBig:
        return None, "too big"
    if da != db:
        return False, f"dims {da} vs {db}"
    e = ref.maxdiff(ra, rb)
    return e <= tol, f"maxabs={e:.3g}"


def wishes(summ):
    """[value, n_outcomes] wishes that make a twin follow the same measurement branch"""
    out = []
    if summ.get("povm") is not None:
        pass
    for p, i in zip(summ["draws"], summ["idx"]):
        if p is not None and i is not None:
            out.append([int(i), len(p)])
    return out


def exec_twin(decl, steps, contraction_of, lead=None, pre_step=None, reuse_ops=True, toggles=None):
    """execute `steps`; contraction_of(i) -> flag for step i; lead = summaries of the leading run (for steering)"""
    runner = Runner(decl, steer_rng=np.random.default_rng(1), mode="steer", contraction=contraction_of(0))
    out = []
    S = instrument.SAMPLER
    for i, st in enumerate(steps):
        runner.C.set_contraction(bool(contraction_of(i)))
        st = dict(st)
        if not reuse_ops:
            st.pop("op_id", None)
        if pre_step:
            if st["k"] == "apply":
                # the operation object exists before the unrelated activity happens
                if st.get("op_id") is None:
                    st["op_id"] = f"pre{i}"
                try:
                    runner.get_op(st)
                except Exception:  # noqa: BLE001 - construction errors surface again inside the step
                    pass
            pre_step(runner, i, st)
            runner.C.set_contraction(bool(contraction_of(i)))
        S.want = wishes(lead[i]) if lead is not None and i < len(lead) else None
        rec = runner.step(st)
        S.want = None
        out.append(summary(rec))
        if out[-1]["live"] is None:
            break
    return out, runner


def gen_program(rng, profile, tier, opts, contraction, nsteps, op_reuse=False):
    """generate a program online against a leading run; returns (decl, steps, summaries)"""
    gen = Gen(rng, profile, tier, opts)
    decl = gen.decl()
    srng = np.random.default_rng(int(rng.integers(0, 2**31)))
    runner = Runner(decl, steer_rng=srng, mode="steer", contraction=contraction)
    steps, summ = [], []
    ops_seen = []
    for i in range(nsteps):
        st = gen.next_step(runner)
        if st is None:
            break
        if st["k"] == "config":
            continue
        if op_reuse and st["k"] == "apply" and "op_id" not in st:
            # reuse an earlier operation description where it fits the new target kinds
            fits = [(j, o) for j, o in enumerate(ops_seen) if o["fam"] == st["op"]["fam"] and o["fam"] != "comp"
                    and o["type"] not in ("Custom", "Expresion")]
            # an expression-defined composite operation is reusable on other operands of the same kinds
            # (Fock factors are written through dims[i], so they adapt to the new operands' dimensions)
            if st["op"]["fam"] == "comp" and st["op"]["type"] == "Expression" and "X" not in st["op"]["state_types"]:
                fits = [(j, o) for j, o in enumerate(ops_seen) if o["fam"] == "comp" and o["type"] == "Expression"
                        and o["state_types"] == st["op"]["state_types"]]
            if st["op"]["fam"] == "custom":
                fits = [(j, o) for j, o in enumerate(ops_seen) if o["fam"] == "custom" and o.get("adaptive")]
            if fits and rng.random() < 0.6:
                j, o = fits[int(rng.integers(0, len(fits)))]
                st["op"] = o
                st["op_id"] = j
            else:
                ops_seen.append(st["op"])
                st["op_id"] = len(ops_seen) - 1
        steps.append(st)
        rec = runner.step(st)
        summ.append(summary(rec))
        if summ[-1]["live"] is None or rec.exc_type == "StepTimeout":
            break
    return decl, steps, summ


def compare_runs(prop, A, B, steps, what, col, replay, cellfn, check_draws=True, tol=1e-8):
    """offline comparison of two logs"""
    n = min(len(A), len(B))
    for i in range(n):
        a, b = A[i], B[i]
        st = steps[i]
        cell = cellfn(st, a)
        sig = {"kind": st["k"], "via": st.get("via", "-"), "what": what}
        if "op" in st:
            sig["op"] = st["op"]["fam"] + "." + st["op"]["type"]
        # A request whose operator size was written for the cutoffs of the leading run (channels, POVMs, fixed-size
        # custom operators on modes) is a different request in a twin whose modes currently have other cutoffs - which
        # cutoff a mode has is representation, not physics.  Such a step cannot be compared; nor can what follows.
        if i > 0 and (st["k"] in ("kraus", "povm") or (st["k"] == "apply" and st.get("op", {}).get("type") == "Custom")):
            da, db = A[i - 1].get("dims") or {}, B[i - 1].get("dims") or {}
            if any(da.get(t) != db.get(t) for t in st.get("targets", [])):
                col.add([INC(prop, "twin-cutoffs-differ", cell)], replay)
                return
        if a["raised"] != b["raised"]:
            sig["exc"] = a["exc"] or b["exc"]
            sig["frame"] = a["frame"] or b["frame"]
            col.add([V(prop, False, "twin-exception-differs", f"step {i} {st['k']}: raised={a['raised']}({a['exc']}) vs raised={b['raised']}({b['exc']})", cell, **sig)], replay)
            return
        if a["outcomes"] != b["outcomes"] or a.get("povm") != b.get("povm"):
            # the twins went down different measurement branches: steering could not align them -> stop, no verdict
            col.add([INC(prop, "steering-mismatch", cell)], replay)
            return
        if a.get("valid", True) != b.get("valid", True):
            # one run holds a physically invalid block (trace, norm, shape ...) where its twin holds a valid one
            col.add([V(prop, False, "twin-validity-differs", f"step {i} {st['k']}: stored states valid={a.get('valid', True)} in one run, valid={b.get('valid', True)} in its twin", cell, **sig)], replay)
            return
        if not a.get("valid", True):
            col.add([INC(prop, "invalid-state-in-twin", cell)], replay)
            return
        ok, det = same_state(a, b, tol)
        if ok is None:
            col.add([INC(prop, "twin-unreadable", cell)], replay)
            return
        col.add([V(prop, ok, "twin-state-differs", f"step {i} {st['k']}: {det}", cell, **sig)], replay)
        if not ok:
            return
        if check_draws and len(a["draws"]) == len(b["draws"]):
            for pa, pb in zip(a["draws"], b["draws"]):
                if pa is None or pb is None or len(pa) != len(pb) or pa.sum() <= 0 or pb.sum() <= 0:
                    continue
                e = float(np.max(np.abs(pa / pa.sum() - pb / pb.sum())))
                col.add([V(prop, e <= max(1e-7, 10 * tol), "twin-distribution-differs", f"step {i}: p={np.round(pa / pa.sum(), 6).tolist()} vs {np.round(pb / pb.sum(), 6).tolist()}",
                           ("draw",) + tuple(cell), **sig)], replay)


# =========================================================================== C08 (b)


def c08_twin(a, col, budget):
    pidx = 8
    t0 = time.time()
    prog = 0
    while time.time() - t0 < budget:
        rng = np.random.default_rng([a.seed, pidx, a.shard, prog, 2])
        prog += 1
        nsteps = int(rng.integers(4, 11))
        try:
            decl, steps, A = gen_program(rng, "levels", a.tier, {"approx_ops": False, "near_basis": True, "lifecycle": 0.3, "weights": {"config": 0, "resize": 2.5}}, True, nsteps)
        except Exception as e:  # noqa: BLE001
            col.incon["harness-gen-error"] = col.incon.get("harness-gen-error", 0) + 1
            col.extra.setdefault("harness_errors", []).append(f"{type(e).__name__}: {e}"[:200])
            continue
        if not steps:
            continue
        togg = [bool(x) for x in rng.integers(0, 2, size=len(steps))]

        def replay(decl=decl, steps=steps, togg=togg):
            return {"prop": "C08", "kind": "twin", "decl": decl, "steps": steps, "toggles": togg}

        B, _ = exec_twin(decl, steps, lambda i: False, lead=A)
        Cc, _ = exec_twin(decl, steps, lambda i: togg[i], lead=A)
        cellfn = lambda st, s: ("twin", st["k"], st.get("via", "-"), st.get("op", {}).get("type", "-"))  # noqa: E731
        # contraction treats Tr rho^2 within 1e-6 of 1 as pure (documented tolerance): the twins may differ by that much
        compare_runs("C08", A, B, steps, "on-vs-off", col, replay, cellfn, tol=2e-6)
        compare_runs("C08", A, Cc, steps, "on-vs-toggled", col, replay, cellfn, tol=2e-6)
        col.programs += 1
        col.steps += 3 * len(steps)
        if len(col.samples) < 2:
            col.samples.append({"twin": "contraction on/off/toggled", "decl": decl, "steps": steps[:5], "toggles": togg[:5]})


# =========================================================================== C15


def c15_driver(a, col):
    from pwv import opspec
    pidx = 15
    t0 = time.time()
    prog = 0
    scratch_specs = [
        {"fam": "comp", "type": "Expression", "state_types": ["P", "P"],
         "expr": ["kron", "x", "x"], "context": {"x": {"f": "const", "m": c2j(np.array([[0, 1], [1, 0]]))}}},
        {"fam": "comp", "type": "Expression", "state_types": ["F", "P"], "types_form": "str",
         "expr": ["kron", "n", "z"], "context": {"n": {"f": "eye", "i": 0}, "z": {"f": "const", "m": c2j(np.diag([1, -1]))}}},
        {"fam": "comp", "type": "Expression", "state_types": ["X", "X", "P"], "types_form": "mixed",
         "expr": ["kron", "a", "a", "z"], "context": {"a": {"f": "const", "m": c2j(np.eye(2))}, "z": {"f": "const", "m": c2j(np.eye(2))}}},
        {"fam": "fock", "type": "Displace", "alpha": [0.4, -0.2]},
        {"fam": "fock", "type": "PhaseShift", "phi": 1.234},
        {"fam": "pol", "type": "RX", "theta": 2.2},
        {"fam": "comp", "type": "NonPolarizingBeamSplitter", "eta": 0.3},
        {"fam": "fock", "type": "Creation"},
        # fixed-size custom operators of other sizes than anything the program uses: only constructed, never applied
        {"fam": "fock", "type": "Custom", "operator": c2j(np.eye(7))},
        {"fam": "fock", "type": "Custom", "operator": c2j(np.eye(1))},
        {"fam": "custom", "type": "Custom", "operator": c2j(np.eye(5))},
        {"fam": "pol", "type": "Custom", "operator": c2j(np.array([[0, 1], [1, 0]]))},
    ]
    while time.time() - t0 < a.budget:
        rng = np.random.default_rng([a.seed, pidx, a.shard, prog])
        prog += 1
        nsteps = int(rng.integers(5, 12))
        opts = {"approx_ops": False, "op_reuse": 0.45, "reuse_custom": True, "refuse_reuse": 0.3, "refuse_first": 0.15, "ladder_expr": 0.4, "big_small": 0.12, "weights": {"config": 0, "measure": 0.3, "povm": 0.2, "kraus": 0.5, "apply1": 8, "applyc": 6,
                                                   "resize": 1.0, "combine": 1.0}}
        try:
            decl, steps, A = gen_program(rng, "ops", a.tier, opts, bool(rng.random() < 0.5), nsteps, op_reuse=True)
        except Exception as e:  # noqa: BLE001
            col.incon["harness-gen-error"] = col.incon.get("harness-gen-error", 0) + 1
            col.extra.setdefault("harness_errors", []).append(f"{type(e).__name__}: {e}"[:200])
            continue
        if not steps:
            continue
        contraction = True

        def replay(decl=decl, steps=steps):
            return {"prop": "C15", "kind": "twin", "decl": decl, "steps": steps}

        cellfn = lambda st, s: ("twin", st["k"], st.get("op", {}).get("fam", "-") + "." + st.get("op", {}).get("type", "-"),  # noqa: E731
                                "reused" if st.get("op_id") is not None else "fresh")
        # A was generated with operation objects reused (op_id); run it again deterministically as the lead
        A, runA = exec_twin(decl, steps, lambda i: contraction, lead=A, reuse_ops=True)
        B, _ = exec_twin(decl, steps, lambda i: contraction, lead=A, reuse_ops=False)

        scratch = {}

        def unrelated(runner, i, st):
            """construct (and sometimes apply, to a scratch world) unrelated operations between any two steps"""
            sp = scratch_specs[int(rng.integers(0, len(scratch_specs)))]
            try:
                op = opspec.build_operation(sp)
                if sp["type"] == "Custom" and sp["fam"] != "pol":
                    _ = op
                elif sp["fam"] == "pol":
                    from photon_weave.state.polarization import Polarization
                    Polarization().apply_operation(op)
                elif sp["fam"] == "fock" and sp["type"] != "Displace":
                    from photon_weave.state.fock import Fock
                    f = Fock()
                    f.state = 1
                    f.apply_operation(op)
                else:
                    _ = op  # construction alone already runs OperationType.update()
            except Exception:  # noqa: BLE001 - the scratch activity itself is not under judgement
                pass

        Cc, _ = exec_twin(decl, steps, lambda i: contraction, lead=A, reuse_ops=True, pre_step=unrelated)
        # what each application did, against the operator its own type and parameters define (the twins below would
        # agree with each other if, say, a cache shared between objects handed both the same wrong matrix)
        from pwv import oracles as O
        for rec in runA.records:
            if rec.step["k"] != "apply" or rec.step["op"].get("ladder"):
                # (cutoff-dependent expressions are compared between the twins only: which cutoff the library picks for
                # an expression over modes is its own documented rule, not something the reference second-guesses)
                continue
            for pr in ("C01", "C03"):
                for v in O.judge_apply(rec, pr):
                    v = dict(v)
                    v["prop"] = "C15"
                    if v["status"] == "violated":
                        v["mode"] = "effect-" + v["mode"]
                    v["cell"] = ("effect", rec.step["op"]["fam"] + "." + rec.step["op"]["type"], "reused" if rec.step.get("op_id") is not None else "fresh")
                    col.add([v], replay)
        compare_runs("C15", A, B, steps, "reused-vs-fresh", col, replay, cellfn, check_draws=False)
        compare_runs("C15", A, Cc, steps, "plain-vs-interleaved", col, replay, cellfn, check_draws=False)
        # arrays inside expressions and arrays handed out by the context are the user's too
        from pwv.opspec import build_expr
        from pwv.contracts import leaves
        for rec in runA.records:
            sp = rec.step.get("op") or {}
            if rec.op_obj is not None and "state_types" in sp and sp.get("types_form") in ("list", "mixed"):
                from pwv.opspec import types_value
                want = types_value(sp)
                now = rec.op_obj.kwargs.get("state_types")
                ok = isinstance(now, list) and len(now) == len(want) and all(a is b or a == b for a, b in zip(now, want))
                col.add([V("C15", ok, "user-list-modified", f"step {rec.i}: the caller's state_types list of {sp['fam']}.{sp['type']} now reads {now!r}",
                           ("user-array", "state_types"), kind="apply", op=sp["fam"] + "." + sp["type"])], replay)
            if rec.op_obj is not None and "expr" in sp:
                try:
                    now = [x for x in leaves(rec.op_obj.kwargs["expr"]) if isinstance(x, np.ndarray)]
                    orig = [x for x in leaves(build_expr(sp["expr"], True)) if isinstance(x, np.ndarray)]
                    ok = len(now) == len(orig) and all(a.shape == b.shape and np.array_equal(a, b) for a, b in zip(now, orig))
                    if now:
                        col.add([V("C15", ok, "user-array-modified", f"step {rec.i}: a numpy array inside the expression of {sp['fam']}.{sp['type']} was modified by applying the operation",
                                   ("user-array", "expr-leaf"), kind="apply", op=sp["fam"] + "." + sp["type"])], replay)
                except Exception:  # noqa: BLE001
                    pass
                for name, arr, b0 in (rec.ctx_held or []):
                    col.add([V("C15", arr.tobytes() == b0, "user-array-modified", f"step {rec.i}: the array returned by context entry {name!r} was modified by applying {sp['fam']}.{sp['type']}",
                               ("user-array", "context"), kind="apply", op=sp["fam"] + "." + sp["type"])], replay)
        # user supplied arrays untouched
        for rec in runA.records:
            if rec.user_arrays:
                import jax.numpy as jnp
                for arr, j in zip(rec.user_arrays, _orig_arrays(rec.step)):
                    ok = np.asarray(arr).shape == j.shape and np.allclose(np.asarray(arr), j, atol=0, rtol=0)
                    col.add([V("C15", ok, "user-array-modified", f"step {rec.i} {rec.step['k']}", ("user-array", rec.step["k"]), kind=rec.step["k"])], replay)
        col.programs += 1
        col.steps += 3 * len(steps)
        if len(col.samples) < 2:
            col.samples.append({"twin": "operation reused / fresh / interleaved", "decl": decl,
                                "steps": [{k: v for k, v in s.items() if k != "ops"} for s in steps[:5]]})


def _orig_arrays(step):
    if step["k"] in ("kraus", "povm"):
        return [j2c(x) for x in step["ops"]]
    if step["k"] == "apply" and "operator" in step["op"]:
        return [j2c(step["op"]["operator"])]
    return []


# =========================================================================== C18


def _basis(d, n, phase=1.0):
    v = np.zeros(d, complex)
    v[n] = phase
    return v


def collide_pair(gen, rng):
    """(mode, declA, declB): A holds numerically equal local states in several subsystems, B is the twin.

    mode 'labels': A has equal labels, B distinct labels of the same kind/level -> compare structure only
    mode 'arrays': A has equal vectors/matrices, B the same physical states with distinct global phases
                   -> compare structure and physics"""
    from pwv.world import POLVEC
    nenv = int(rng.integers(2, 4))
    ncus = int(rng.integers(0, 3)) if rng.random() < 0.5 else 0
    mode = "labels" if rng.random() < 0.45 else "arrays"
    A, B = [], []
    k = [0]

    def ph():
        k[0] += 1
        return np.exp(1j * (0.37 + 0.61 * k[0]))

    if mode == "labels":
        dims = int(rng.integers(3, 5))
        n = int(rng.integers(1, 3))
        pl = str(rng.choice(["H", "V", "R"]))
        others = [x for x in range(1, dims) if x != n]
        for i in range(nenv):
            A.append({"t": "env", "name": f"E{i}", "fock": {"k": "label", "n": n, "dims": dims}, "pol": {"k": "label", "l": pl}})
            nb = n if i == 0 else others[(i - 1) % len(others)]
            plb = pl if i == 0 else ["H", "V", "R", "L"][(["H", "V", "R", "L"].index(pl) + i) % 4]
            B.append({"t": "env", "name": f"E{i}", "fock": {"k": "label", "n": nb, "dims": dims}, "pol": {"k": "label", "l": plb}})
        for i in range(ncus):
            A.append({"t": "custom", "name": f"X{i}", "d": 3, "init": {"k": "label", "n": 1}})
            B.append({"t": "custom", "name": f"X{i}", "d": 3, "init": {"k": "label", "n": 1 if i == 0 else 2}})
        return mode, A, B
    d = int(rng.integers(2, 4))
    x = rng.random()
    if x < 0.4:
        fv = _basis(d, int(rng.integers(0, d)))
        fock = lambda p: {"k": "vec", "dims": d, "v": c2j(fv * p)}  # noqa: E731
    elif x < 0.8:
        fv = gen.vec(d)
        fock = lambda p: {"k": "vec", "dims": d, "v": c2j(fv * p)}  # noqa: E731
    else:
        fm = gen.mixed(d)
        fock = lambda p: {"k": "mat", "dims": d, "m": c2j(fm)}  # noqa: E731
    y = rng.random()
    pv = POLVEC[str(rng.choice(["H", "V", "R"]))] if y < 0.5 else gen.vec(2)
    for i in range(nenv):
        own = rng.random() < 0.15
        fa = gen.local_init("F") if own else fock(1.0)
        if fa["k"] == "label" and fa.get("dims") is None:
            fa["dims"] = fa["n"] + 2
        fb = fa if own else fock(ph())
        A.append({"t": "env", "name": f"E{i}", "fock": fa, "pol": {"k": "vec", "v": c2j(pv)}})
        B.append({"t": "env", "name": f"E{i}", "fock": fb, "pol": {"k": "vec", "v": c2j(pv * ph())}})
    cv = gen.vec(2)
    for i in range(ncus):
        A.append({"t": "custom", "name": f"X{i}", "d": 2, "init": {"k": "vec", "v": c2j(cv)}})
        B.append({"t": "custom", "name": f"X{i}", "d": 2, "init": {"k": "vec", "v": c2j(cv * ph())}})
    return mode, A, B


def c18_twin(a, col, budget=None):
    budget = budget or a.budget
    pidx = 18
    t0 = time.time()
    prog = 0
    w = {"config": 0, "measure": 5, "combine": 4, "reorder": 2, "trace_out": 3, "apply1": 2, "applyc": 3, "kraus": 3, "povm": 2.5,
         "resize": 0, "composite": 1.5, "contract": 0.3, "expand": 0.8}
    while time.time() - t0 < budget:
        rng = np.random.default_rng([a.seed, pidx, a.shard, prog, 3])
        prog += 1
        gen = Gen(rng, "generic", a.tier, {"approx_ops": False, "weights": w, "fock_types": ["PhaseShift", "Identity", "Creation"], "same_kind_operands": 0.5, "same_kind_prefix": 0.25})
        mode, decl, declB = collide_pair(gen, rng)
        if mode == "labels":
            # Fock operations choose dimensions from the occupied levels, i.e. from the label values: with
            # different labels the twins would legitimately get different dimensions
            gen.opts["no_fock_ops"] = True
        contraction = bool(rng.random() < 0.5)
        srng = np.random.default_rng(int(rng.integers(0, 2**31)))
        # lead = value-distinct world: the program is generated against it
        runner = Runner(declB, steer_rng=srng, mode="steer", contraction=contraction)
        steps, B = [], []
        for i in range(int(rng.integers(4, 10))):
            try:
                st = gen.next_step(runner)
                if st is not None and rng.random() < 0.15:
                    # a request that names a subsystem of ANOTHER envelope / composite: whether it is rejected must
                    # not depend on whether that foreign subsystem happens to hold an equal value
                    from pwv.drivers_misc import make_fault
                    fs = make_fault(gen, gen.view(runner), rng, "outside-container")
                    if fs is not None:
                        st = fs
            except Exception as e:  # noqa: BLE001
                col.extra.setdefault("harness_errors", []).append(f"{type(e).__name__}: {e}"[:200])
                break
            if st is None:
                break
            if st["k"] in ("config",) or (st["k"] == "apply" and st["op"]["type"] in ("Custom", "Expresion") and st["op"]["fam"] == "fock"):
                continue
            steps.append(st)
            rec = runner.step(st)
            B.append(summary(rec))
            if B[-1]["live"] is None:
                break
            if mode == "labels" and st["k"] == "apply" and st["op"]["fam"] == "comp" and "F" in st["op"].get("state_types", []):
                # an operation on modes picks their dimensions from the occupied levels, i.e. from the label values:
                # from here on the twins legitimately differ in dimensions, so the program ends
                break
        if not steps:
            continue

        def replay(decl=decl, declB=declB, steps=steps, contraction=contraction, mode=mode):
            return {"prop": "C18", "kind": "twin", "mode": mode, "decl": decl, "decl_distinct": declB, "steps": steps, "contraction": contraction}

        A, _ = exec_twin(decl, steps, lambda i: contraction, lead=B if mode == "arrays" else None)
        cellfn = lambda st, s: ("twin", mode, st["k"], st.get("via", "-"), len(st.get("targets", st.get("args", []))))  # noqa: E731
        n = min(len(A), len(B))
        for i in range(n):
            sa, sb, st = A[i], B[i], steps[i]
            cell = cellfn(st, sa)
            sig = {"kind": st["k"], "via": st.get("via", "-"), "twin": mode}
            if sa["raised"] != sb["raised"]:
                sig["exc"] = sa["exc"] or sb["exc"]
                sig["frame"] = sa["frame"] or sb["frame"]
                col.add([V("C18", False, "twin-exception-differs", f"step {i} {st['k']}: equal-valued world raised={sa['raised']}({sa['exc']}), value-distinct twin raised={sb['raised']}({sb['exc']})", cell, **sig)], replay)
                break
            ka = None if sa["outcomes"] is None else sorted(sa["outcomes"])
            kb = None if sb["outcomes"] is None else sorted(sb["outcomes"])
            if ka != kb:
                col.add([V("C18", False, "outcome-keys-differ", f"step {i} {st['k']} via {st.get('via')}: outcome entries {ka} but {kb} in the value-distinct twin", cell, **sig)], replay)
                break
            if sa["live"] != sb["live"]:
                col.add([V("C18", False, "live-sets-differ", f"step {i} {st['k']}: {sa['live']} vs {sb['live']}", cell, **sig)], replay)
                break
            if sa["blocks"] is not None and sb["blocks"] is not None and sa["blocks"] != sb["blocks"]:
                col.add([V("C18", False, "partition-differs", f"step {i} {st['k']}: blocks {sa['blocks']} vs {sb['blocks']}", cell, **sig)], replay)
                break
            if mode == "labels":
                col.add([V("C18", True, "", "", cell, **sig)], replay)
                if sa["outcomes"] != sb["outcomes"]:
                    # different labels -> different outcomes are expected; histories may now legitimately diverge
                    pass
                continue
            if sa["outcomes"] != sb["outcomes"] or sa.get("povm") != sb.get("povm"):
                col.add([INC("C18", "steering-mismatch", cell)], replay)
                break
            if not sa.get("valid", True) or not sb.get("valid", True):
                col.add([INC("C18", "invalid-state-in-twin", cell)], replay)
                break
            ok, det = same_state(sa, sb)
            if ok is None:
                col.add([INC("C18", "twin-unreadable", cell)], replay)
                break
            col.add([V("C18", ok, "twin-state-differs", f"step {i} {st['k']}: {det}", cell, **sig)], replay)
            if not ok:
                break
        col.programs += 1
        col.steps += 2 * len(steps)
        if len(col.samples) < 2:
            col.samples.append({"twin": "equal-valued vs value-distinct (" + mode + ")", "decl": decl, "decl_distinct": declB,
                                "steps": [{k: v for k, v in s.items() if k != "ops"} for s in steps[:5]]})
