"""icontract post-conditions on the real pure functions of photon_weave, installed from the harness.

Conditions never raise inside library code: they record a verdict in LOG and return True, so a broken
contract never changes the execution it observes.  Every contract counts its evaluations.
"""
import copy
import sys

import numpy as np

from pwv import env as _env

_env.setup()

import icontract  # noqa: E402

from pwv import refops  # noqa: E402

LOG = []  # verdict dicts (prop, status, mode, detail, cell, sig)
COUNT = {}
TOL = 1e-9


class ContractBroken(Exception):
    pass


def _rec(prop, fn, ok, detail="", cell=None, mode="operator-mismatch", **sig):
    COUNT[fn] = COUNT.get(fn, 0) + 1
    sig = dict(sig)
    sig["fn"] = fn
    LOG.append({"prop": prop, "status": "held" if ok else "violated", "mode": "" if ok else mode,
                "detail": detail, "cell": cell if cell is not None else (fn,), "sig": sig})
    return True


def _cmp(a, b, tol=TOL):
    try:
        a = np.asarray(a, dtype=complex)
        b = np.asarray(b, dtype=complex)
    except Exception as e:  # noqa: BLE001
        return False, f"unreadable result: {e}"
    if a.shape != b.shape:
        return False, f"shape {a.shape} vs {b.shape}"
    if not np.all(np.isfinite(a)):
        return False, "non-finite entries"
    e = float(np.max(np.abs(a - b))) if a.size else 0.0
    return e <= tol, f"maxabs={e:.3g}"


def angle_class(x):
    x = float(np.real(x))
    if x < 0:
        return "neg"
    if x > 2 * np.pi:
        return ">2pi"
    return "0..2pi"


# ---- named post-conditions (parameter names must match the contracted functions)


def post_identity_operator(result):
    ok, d = _cmp(result, refops.pol_op("I"))
    return _rec("C12", "identity_operator", ok, d)


def post_hadamard_operator(result):
    ok, d = _cmp(result, refops.pol_op("H"))
    return _rec("C12", "hadamard_operator", ok, d)


def post_x_operator(result):
    ok, d = _cmp(result, refops.pol_op("X"))
    return _rec("C12", "x_operator", ok, d)


def post_y_operator(result):
    ok, d = _cmp(result, refops.pol_op("Y"))
    return _rec("C12", "y_operator", ok, d)


def post_z_operator(result):
    ok, d = _cmp(result, refops.pol_op("Z"))
    return _rec("C12", "z_operator", ok, d)


def post_s_operator(result):
    ok, d = _cmp(result, refops.pol_op("S"))
    return _rec("C12", "s_operator", ok, d)


def post_t_operator(result):
    ok, d = _cmp(result, refops.pol_op("T"))
    return _rec("C12", "t_operator", ok, d)


def post_sx_operator(result):
    ok, d = _cmp(result, refops.pol_op("SX"))
    return _rec("C12", "sx_operator", ok, d)


def post_controlled_not_operator(result):
    ok, d = _cmp(result, refops.cnot())
    return _rec("C12", "controlled_not_operator", ok, d)


def post_controlled_z_operator(result):
    ok, d = _cmp(result, refops.cz())
    return _rec("C12", "controlled_z_operator", ok, d)


def post_swap_operator(result):
    ok, d = _cmp(result, refops.swap())
    return _rec("C12", "swap_operator", ok, d)


def post_controlled_swap_operator(result):
    ok, d = _cmp(result, refops.cswap())
    return _rec("C12", "controlled_swap_operator", ok, d)


def post_rx_operator(theta, result):
    ok, d = _cmp(result, refops.pol_op("RX", theta=float(theta)))
    return _rec("C12", "rx_operator", ok, f"theta={float(theta):.6g} {d}", cell=("rx_operator", angle_class(theta)))


def post_ry_operator(theta, result):
    ok, d = _cmp(result, refops.pol_op("RY", theta=float(theta)))
    return _rec("C12", "ry_operator", ok, f"theta={float(theta):.6g} {d}", cell=("ry_operator", angle_class(theta)))


def post_rz_operator(theta, result):
    ok, d = _cmp(result, refops.pol_op("RZ", theta=float(theta)))
    return _rec("C12", "rz_operator", ok, f"theta={float(theta):.6g} {d}", cell=("rz_operator", angle_class(theta)))


def post_u3_operator(phi, theta, omega, result):
    ok, d = _cmp(result, refops.pol_op("U3", phi=float(phi), theta=float(theta), omega=float(omega)))
    return _rec("C12", "u3_operator", ok, f"phi={float(phi):.4g} theta={float(theta):.4g} omega={float(omega):.4g} {d}",
                cell=("u3_operator", angle_class(phi), angle_class(theta), angle_class(omega)))


def post_annihilation_operator(cutoff, result):
    ok, d = _cmp(result, refops.destroy(int(cutoff)))
    return _rec("C12", "annihilation_operator", ok, f"cutoff={cutoff} {d}", cell=("annihilation_operator", int(cutoff)))


def post_creation_operator(cutoff, result):
    ok, d = _cmp(result, refops.create(int(cutoff)))
    return _rec("C12", "creation_operator", ok, f"cutoff={cutoff} {d}", cell=("creation_operator", int(cutoff)))


def post_number_operator(cutoff, result):
    ok, d = _cmp(result, refops.number(int(cutoff)))
    return _rec("C12", "number_operator", ok, f"cutoff={cutoff} {d}", cell=("number_operator", int(cutoff)))


def _phase_cls(z):
    return int(np.floor((np.angle(complex(z)) % (2 * np.pi)) / (np.pi / 4)))


def post_squeezing_operator(cutoff, zeta, result):
    ok, d = _cmp(result, refops.squeeze(int(cutoff), complex(zeta)), 1e-8)
    return _rec("C12", "squeezing_operator", ok, f"cutoff={cutoff} zeta={complex(zeta):.4g} {d}",
                cell=("squeezing_operator", min(int(cutoff), 12), _phase_cls(zeta)))


def post_displacement_operator(cutoff, alpha, result):
    ok, d = _cmp(result, refops.displace(int(cutoff), complex(alpha)), 1e-8)
    return _rec("C12", "displacement_operator", ok, f"cutoff={cutoff} alpha={complex(alpha):.4g} {d}",
                cell=("displacement_operator", min(int(cutoff), 12), _phase_cls(alpha)))


def post_phase_operator(cutoff, theta, result):
    ok, d = _cmp(result, refops.phase(int(cutoff), float(theta)))
    return _rec("C12", "phase_operator", ok, f"cutoff={cutoff} theta={float(theta):.6g} {d}",
                cell=("phase_operator", min(int(cutoff), 12), angle_class(theta)))


OPS_CONTRACTS = {
    "identity_operator": post_identity_operator, "hadamard_operator": post_hadamard_operator,
    "x_operator": post_x_operator, "y_operator": post_y_operator, "z_operator": post_z_operator,
    "s_operator": post_s_operator, "t_operator": post_t_operator, "sx_operator": post_sx_operator,
    "controlled_not_operator": post_controlled_not_operator, "controlled_z_operator": post_controlled_z_operator,
    "swap_operator": post_swap_operator, "controlled_swap_operator": post_controlled_swap_operator,
    "rx_operator": post_rx_operator, "ry_operator": post_ry_operator, "rz_operator": post_rz_operator,
    "u3_operator": post_u3_operator, "annihilation_operator": post_annihilation_operator,
    "creation_operator": post_creation_operator, "number_operator": post_number_operator,
    "squeezing_operator": post_squeezing_operator, "displacement_operator": post_displacement_operator,
    "phase_operator": post_phase_operator,
}


# ---- expression interpreter (C16)

_depth = [0]


def copy_expr(e):
    """deep copy of an expression tree with numpy copies of every array leaf (taken BEFORE the call)"""
    if isinstance(e, tuple):
        return tuple(copy_expr(x) for x in e)
    if isinstance(e, list):
        return [copy_expr(x) for x in e]
    if hasattr(e, "shape"):
        return np.array(e)
    return copy.copy(e)


def leaves(e, out=None):
    out = [] if out is None else out
    if isinstance(e, (tuple, list)):
        for x in e:
            leaves(x, out)
    elif hasattr(e, "shape"):
        out.append(e)
    return out


def snap_interp(expr):
    return copy_expr(expr)


def post_interpreter(expr, context, dimensions, result, OLD):
    old = OLD.expr_copy
    fn = "interpreter"
    head = expr[0] if isinstance(expr, tuple) and expr else type(expr).__name__
    cell = ("interpreter", str(head), _tree_depth(expr))
    try:
        want = refops.evaluate(old, context, dimensions)
    except Exception as e:  # noqa: BLE001
        return _rec("C16", fn, False, f"accepted an expression the reference rejects: {e}", cell=cell, mode="accepted-malformed", head=str(head))
    # tolerance relative to the size of the value: products of several matrices and matrix exponentials of
    # non-normal arguments reach entries of 1e3 .. 1e6, where two float64 implementations differ in absolute terms
    try:
        scale = max(1.0, float(np.max(np.abs(np.asarray(want, dtype=complex)))))
    except Exception:  # noqa: BLE001
        scale = 1.0
    if not np.isfinite(scale) or scale > 1e6:
        COUNT["interpreter-ill-conditioned"] = COUNT.get("interpreter-ill-conditioned", 0) + 1
        return True
    ok, d = _cmp(result, want, (2e-6 if _has_expm(old) else 1e-8) * scale)
    if not ok:
        return _rec("C16", fn, False, f"{d} expr={_brief(old)}", cell=cell, mode="wrong-value", head=str(head))
    # caller-owned leaves unchanged
    for a, b in zip(leaves(expr), leaves(old)):
        x = np.asarray(a)
        if x.shape != b.shape or x.tobytes() != np.asarray(b, dtype=x.dtype).tobytes():
            return _rec("C16", fn, False, f"array leaf modified in place by '{head}': expr={_brief(old)}", cell=cell, mode="leaf-mutated", head=str(head))
    return _rec("C16", fn, True, "", cell=cell, head=str(head))


def _has_expm(e):
    """matrix exponentials are computed by two different Pade implementations (jax / scipy); with exponent norms
    of a few hundred they agree to ~1e-7, not 1e-8"""
    if isinstance(e, tuple):
        return (len(e) > 0 and e[0] == "expm") or any(_has_expm(x) for x in e[1:])
    return False


def _tree_depth(e):
    if isinstance(e, tuple):
        return 1 + max([_tree_depth(x) for x in e[1:]] + [0])
    return 0


def _brief(e, n=160):
    def f(x):
        if isinstance(x, tuple):
            return "(" + ",".join(f(y) for y in x) + ")"
        if hasattr(x, "shape"):
            return f"<{type(x).__module__.split('.')[0]}{tuple(x.shape)}>"
        return repr(x)
    return f(e)[:n]


# ---- overlap integral (C19)


def post_overlap_integral(self, other, delay, result):
    import math
    try:
        p1, p2 = self.temporal_profile.params, other.temporal_profile.params
        s1, s2 = float(p1["sigma"]), float(p2["sigma"])
        dlt = float(delay) + float(p2["mu"]) - float(p1["mu"])
        want = math.sqrt(2 * s1 * s2 / (s1 * s1 + s2 * s2)) * math.exp(-dlt * dlt / (2 * (s1 * s1 + s2 * s2)))
    except Exception as e:  # noqa: BLE001
        return _rec("C19", "overlap_integral", True, f"profile without closed form: {e}")
    dec = int(np.floor(np.log10(min(s1, s2))))
    cell = ("overlap", dec, "eq" if s1 == s2 else "neq", min(8, int(abs(dlt) / max(s1, s2))))
    try:
        got = float(np.real(result))
    except Exception:
        return _rec("C19", "overlap_integral", False, f"non-numeric result {result!r}", cell=cell, mode="bad-result", decade=dec)
    # quad's default absolute error target is 1.5e-8: "within [0, 1]" is judged with that much slack
    ok = abs(got - want) <= 1e-6 and -1e-7 <= got <= 1 + 1e-7
    return _rec("C19", "overlap_integral", ok, f"sigma=({s1:.3g},{s2:.3g}) shift={dlt:.3g}: got {got:.9g}, closed form {want:.9g}",
                cell=cell, mode="wrong-overlap", decade=dec)


# ---- installation

_installed = {}


def rebind_everywhere(orig, wrapped):
    n = 0
    for name, mod in list(sys.modules.items()):
        if not name.startswith("photon_weave") or mod is None:
            continue
        for attr, val in list(vars(mod).items()):
            if val is orig:
                setattr(mod, attr, wrapped)
                n += 1
    return n


def install(which=("ops", "interpreter", "overlap")):
    import photon_weave._math.ops as ops
    import photon_weave.extra.expression_interpreter as ei
    import photon_weave.operation.composite_operation  # noqa: F401  (make sure importers are loaded)
    import photon_weave.operation.fock_operation  # noqa: F401
    import photon_weave.operation.polarization_operation  # noqa: F401
    import photon_weave.operation.custom_state_operation  # noqa: F401
    from photon_weave.state.envelope import Envelope

    out = {}
    if "ops" in which and "ops" not in _installed:
        for name, cond in OPS_CONTRACTS.items():
            orig = getattr(ops, name)
            wrapped = icontract.ensure(cond, error=ContractBroken)(orig)
            out[name] = rebind_everywhere(orig, wrapped)
        _installed["ops"] = out
    if "interpreter" in which and "interpreter" not in _installed:
        orig = ei.interpreter
        wrapped = icontract.snapshot(snap_interp, name="expr_copy")(icontract.ensure(post_interpreter, error=ContractBroken)(orig))
        _installed["interpreter"] = rebind_everywhere(orig, wrapped)
    if "overlap" in which and "overlap" not in _installed:
        orig = Envelope.overlap_integral
        Envelope.overlap_integral = icontract.ensure(post_overlap_integral, error=ContractBroken)(orig)
        _installed["overlap"] = 1
    return _installed


def drain(prop=None):
    """take the recorded verdicts (optionally only those of one property)"""
    global LOG
    if prop is None:
        out, LOG[:] = list(LOG), []
        return out
    out = [v for v in LOG if v["prop"] == prop]
    LOG[:] = [v for v in LOG if v["prop"] != prop]
    return out
