"""Well-formedness predicates over snapshots: C07 (valid, correctly tagged states) and C13 (bookkeeping)."""
import numpy as np

from pwv.world import blocks, live, Malformed, fock_dim, arr_np

TOL = 1e-7


def c07(sn):
    """list of (mode, detail) problems with the stored states of live blocks"""
    out = []
    try:
        bl = blocks(sn)
    except Malformed as e:
        return [("unreadable", str(e))]
    for b in bl:
        mem = b["members"]
        try:
            dims = [fock_dim(sn.subs[m]) for m in mem]
        except Malformed as e:
            out.append(("bad-dims", f"{mem}: {e}"))
            continue
        n = int(np.prod(dims))
        kind, payload = b["state"]
        tag = b["level"]
        where = f"{b['kind']}{mem}"
        if kind == "label":
            if tag != "L":
                out.append(("tag-mismatch", f"{where}: label stored but level tag {tag}"))
            s = sn.subs[mem[0]]
            if s["kind"] == "P":
                out.append(("bad-label", f"{where}: integer label on a polarization"))
            d = s["dims"]
            if payload < 0 or (d is not None and d > 0 and payload >= d):
                out.append(("label-range", f"{where}: label {payload} outside dimension {d}"))
        elif kind == "plabel":
            if tag != "L":
                out.append(("tag-mismatch", f"{where}: label stored but level tag {tag}"))
            if sn.subs[mem[0]]["kind"] != "P":
                out.append(("bad-label", f"{where}: polarization label on a non-polarization"))
        elif kind == "vec":
            a = arr_np(payload)
            if a.shape == (1, 1) and tag == "M":
                pass  # a 1x1 array is both a column vector and a matrix
            elif tag != "V":
                out.append(("tag-mismatch", f"{where}: vector stored but level tag {tag}"))
            if a.shape != (n, 1):
                out.append(("shape", f"{where}: vector shape {a.shape}, member dims {dims}"))
                continue
            if not np.all(np.isfinite(a)):
                out.append(("non-finite", where))
                continue
            nr = float(np.linalg.norm(a))
            if abs(nr - 1) > TOL:
                out.append(("norm", f"{where}: vector norm {nr:.9g}"))
        elif kind == "mat":
            a = arr_np(payload)
            if tag != "M":
                out.append(("tag-mismatch", f"{where}: matrix stored but level tag {tag}"))
            if a.shape != (n, n):
                out.append(("shape", f"{where}: matrix shape {a.shape}, member dims {dims}"))
                continue
            if not np.all(np.isfinite(a)):
                out.append(("non-finite", where))
                continue
            tr = np.trace(a)
            if abs(tr - 1) > TOL:
                out.append(("trace", f"{where}: trace {tr:.9g}"))
            if np.max(np.abs(a - a.conj().T)) > TOL:
                out.append(("hermiticity", f"{where}: max |rho-rho^dag| = {np.max(np.abs(a - a.conj().T)):.3g}"))
            else:
                ev = np.linalg.eigvalsh((a + a.conj().T) / 2)
                if ev.min() < -TOL:
                    out.append(("psd", f"{where}: min eigenvalue {ev.min():.3g}"))
        else:
            out.append(("unreadable", f"{where}: state of kind {kind}"))
        for m in mem:
            if sn.subs[m]["level"] != tag:
                out.append(("member-level", f"{where}: member {m} reports level {sn.subs[m]['level']}, block is {tag}"))
    return out


def c13(sn, world):
    """list of (mode, detail) problems with the object graph's bookkeeping"""
    out = []
    lv = set(live(sn))
    # --- storage places per live subsystem (strict reading)
    places = {n: [] for n in sn.order}
    for n in sn.order:
        if sn.subs[n]["state"][0] != "none":
            places[n].append(("own", None))
    for en, e in sn.envs.items():
        if e["state"][0] != "none":
            for m in (en + ".f", en + ".p"):
                places[m].append(("env", en))
    seen_ps = {}
    for cid, c in sn.conts.items():
        ids = [ps["id"] for ps in c["states"]]
        if len(ids) != len(set(ids)):
            out.append(("ps-listed-twice", f"container lists a product space twice ({len(ids)} entries, {len(set(ids))} distinct)"))
        for k, ps in enumerate(c["states"]):
            if not ps["objs"]:
                out.append(("ps-empty", f"empty product space at position {k}"))
            if len(set(ps["objs"])) != len(ps["objs"]):
                out.append(("ps-duplicate-member", f"{ps['objs']}"))
            if ps["id"] in seen_ps:
                continue
            seen_ps[ps["id"]] = (cid, k)
            for t, m in enumerate(ps["objs"]):
                if m in places:
                    places[m].append(("ps", (cid, k, t)))
                else:
                    out.append(("foreign-member", f"product space holds unknown object {m}"))
    # a handle-reachable container is what the user sees; product spaces must be listed in it
    reach = {h["cont"] for h in sn.handles.values() if h["cont"] is not None}
    for n in sn.order:
        s = sn.subs[n]
        pl = places[n]
        if s["measured"]:
            if pl:
                out.append(("destroyed-still-stored", f"{n} is destroyed but still held by {[p[0] for p in pl]}"))
            if s["index"] is not None:
                out.append(("destroyed-has-index", f"{n} index {s['index']}"))
            continue
        if len(pl) == 0:
            out.append(("stored-nowhere", n))
            continue
        if len(pl) > 1:
            out.append(("stored-twice", f"{n} held by {[p[0] for p in pl]}"))
            continue
        kind, where = pl[0]
        idx = s["index"]
        if kind == "own":
            if idx is not None:
                out.append(("index-wrong", f"{n} holds its own state but index is {idx}"))
        elif kind == "env":
            if not isinstance(idx, int) or isinstance(idx, bool):
                out.append(("index-wrong", f"{n} is stored in envelope {where} but index is {idx}"))
            else:
                other = world.partner(n)
                oi = sn.subs[other]["index"]
                if idx not in (0, 1) or (isinstance(oi, int) and oi == idx):
                    out.append(("index-wrong", f"{n} index {idx}, partner index {oi}"))
        else:
            cid, k, t = where
            if idx != (k, t):
                out.append(("index-wrong", f"{n} is at (product space {k}, position {t}) but index is {idx}"))
            if cid not in reach:
                out.append(("ps-unreachable", f"{n} is stored in a product space no handle can see"))
            # points back to its composite
            u = s["ce_uid"]
            if u is None or sn.uidmap.get(u) != cid:
                out.append(("backpointer", f"{n} stored in a composite product space but its composite pointer resolves elsewhere"))
    # --- handles of merged composites resolve to one container
    groups = {}
    for hn, g in getattr(sn, "merge_group", {}).items():
        groups.setdefault(g, []).append(hn)
    for g, hs in groups.items():
        cs = {sn.handles[h]["cont"] for h in hs if h in sn.handles}
        if len(cs) > 1:
            out.append(("handles-diverge", f"merged handles {hs} resolve to {len(cs)} containers"))
        if None in cs:
            out.append(("handle-dangling", f"{hs}"))
    # --- member envelopes point back
    for cid in reach:
        c = sn.conts.get(cid)
        if not c:
            continue
        if len(set(c["envelopes"])) != len(c["envelopes"]):
            out.append(("envelope-listed-twice", f"{c['envelopes']}"))
        for en in c["envelopes"]:
            e = sn.envs.get(en)
            if e is None:
                continue
            if e["ce_id"] is None or sn.uidmap.get(e["ce_id"]) != cid:
                out.append(("env-backpointer", f"envelope {en} is a member but its composite id resolves elsewhere"))
    return out


def _frag_eq(a, b):
    if type(a) is not type(b):
        return False
    if isinstance(a, dict):
        return a.keys() == b.keys() and all(_frag_eq(a[k], b[k]) for k in a)
    if isinstance(a, (list, tuple)):
        return len(a) == len(b) and all(_frag_eq(x, y) for x, y in zip(a, b))
    if hasattr(a, "shape"):
        if a is b:
            return True
        x, y = np.asarray(a), np.asarray(b)
        return x.shape == y.shape and x.dtype == y.dtype and x.tobytes() == y.tobytes()
    return a == b


def unrelated_changed(rec):
    """containers (and their members) that the step does not touch must be bit-identical"""
    st = rec.step
    w = rec.world
    names = set(st.get("targets", []))
    for a in st.get("args", []) or []:
        names.add(a)
        if a in w.envs:
            names |= {a + ".f", a + ".p"}
    if "env" in st:
        names |= {st["env"], st["env"] + ".f", st["env"] + ".p"}
    for t in list(names):
        p = w.partner(t) if t in w.subs else None
        if p:
            names.add(p)
            names.add(w.env_of(t))
    related_handles = set()
    if "ce" in st:
        related_handles.add(st["ce"])
    for a in st.get("args", []) or []:
        if a in w.ces:
            related_handles.add(a)
    out = []
    pre, post = rec.pre, rec.post
    related = {pre.handles[h]["cont"] for h in related_handles if h in pre.handles}
    for cid, c in pre.conts.items():
        if cid in related:
            continue
        members = set(c["state_objs"]) | set(c["envelopes"])
        for ps in c["states"]:
            members |= set(ps["objs"])
        if members & names:
            continue
        c1 = post.conts.get(cid)
        if c1 is None or not _frag_eq(c, c1):
            out.append(("unrelated-composite-changed", f"container with {sorted(members)} changed although the call addressed {sorted(names)}"))
            continue
        for m in members:
            a = pre.subs.get(m) or pre.envs.get(m)
            b = post.subs.get(m) or post.envs.get(m)
            if a is not None and not _frag_eq(a, b):
                out.append(("unrelated-member-changed", f"{m} of an unrelated composite changed"))
                break
    return out
