"""Instrumentation installed from the harness (no source hooks in /repo).

* jax.random.choice  -> recording / steering wrapper
* Config.random_key  -> recording wrapper (key handed out, stored key before/after)
* sys.monitoring     -> set of photon_weave functions entered while a monitored call is open
"""
import os
import sys

import numpy as np

from pwv import env as _env

_env.setup()

import jax  # noqa: E402
import jax.random  # noqa: E402
from photon_weave.photon_weave import Config  # noqa: E402

REPO_PKG = os.path.join(_env.REPO, "photon_weave") + os.sep


class Sampler:
    """State of the sampler interception."""

    def __init__(self):
        self.events = None  # list while a monitored call is open
        self.mode = "free"  # free | steer
        self.rng = None  # harness rng for steering
        self.script = None  # optional list of forced indices (consumed in order)
        self.want = None  # optional list of [value, n_outcomes] wishes (twin runs): first fitting one is consumed
        self.all_events = []
        self.key_events = []

    def begin(self):
        self.events = []
        return self.events

    def end(self):
        ev, self.events = self.events, None
        return ev


SAMPLER = Sampler()
_orig_choice = jax.random.choice
_installed = False


def _key_bytes(k):
    try:
        return np.asarray(k).tobytes()
    except Exception:
        try:
            return np.asarray(jax.random.key_data(k)).tobytes()
        except Exception:
            return None


def _caller():
    f = sys._getframe(2)
    while f is not None:
        fn = f.f_code.co_filename
        if fn.startswith(REPO_PKG):
            return f"{os.path.relpath(fn, _env.REPO)}:{f.f_code.co_qualname}:{f.f_lineno}"
        f = f.f_back
    return "?"


def _choice(key, a, shape=(), replace=True, p=None, axis=0, **kw):
    S = SAMPLER
    ev = {"caller": _caller(), "forced": False}
    try:
        a_np = np.asarray(a)
        ev["a"] = a_np.tolist() if a_np.ndim else list(range(int(a_np)))
    except Exception:
        ev["a"] = None
    try:
        ev["p"] = None if p is None else np.asarray(p, dtype=float).ravel().copy()
    except Exception:
        ev["p"] = None
    ev["key"] = _key_bytes(key)
    forced = None
    if S.mode == "steer" and ev["a"] is not None and shape == ():
        n = len(ev["a"])
        if S.script:
            forced = S.script.pop(0)
            if forced is not None and not (0 <= forced < n):
                forced = None
        if forced is None and S.want:
            pv = ev["p"]
            okp = pv is not None and len(pv) == n and np.all(np.isfinite(pv)) and pv.sum() > 0
            for wi, (val, dim) in enumerate(S.want):
                if dim == n and 0 <= val < n and (not okp or pv[val] / pv.sum() > 1e-9):
                    forced = int(val)
                    S.want.pop(wi)
                    break
        if forced is None and S.rng is not None:
            pv = ev["p"]
            if pv is not None and len(pv) == n and np.all(np.isfinite(pv)) and pv.sum() > 0 and np.all(pv >= -1e-12):
                supp = [i for i in range(n) if pv[i] / pv.sum() > 1e-6]
                if not supp:
                    supp = [int(np.argmax(pv))]
            else:
                supp = list(range(n))
            forced = int(supp[int(S.rng.integers(0, len(supp)))])
    if forced is not None:
        ev["forced"] = True
        ev["idx"] = int(forced)
        out = jax.numpy.asarray(ev["a"][forced])
    else:
        out = _orig_choice(key, a, shape=shape, replace=replace, p=p, axis=axis, **kw)
        try:
            val = np.asarray(out).item()
            ev["idx"] = ev["a"].index(val) if ev["a"] is not None else None
        except Exception:
            ev["idx"] = None
    if S.events is not None:
        S.events.append(ev)
    S.all_events.append(ev)
    return out


_orig_random_key = Config.__dict__["random_key"]


def _random_key_get(self):
    before = _key_bytes(getattr(self, "_key", None))
    k = _orig_random_key.fget(self)
    after = _key_bytes(getattr(self, "_key", None))
    SAMPLER.key_events.append({"before": before, "handed": _key_bytes(k), "after": after})
    return k


# ---- sys.monitoring: which repo functions were entered during a monitored call
_TOOL = 3
HANDLERS = None  # set while open


def _py_start(code, offset):
    fn = code.co_filename
    if not fn.startswith(REPO_PKG):
        return sys.monitoring.DISABLE
    if HANDLERS is not None:
        HANDLERS.add(code.co_qualname)
    return None


def handlers_begin():
    global HANDLERS
    HANDLERS = set()


def handlers_end():
    global HANDLERS
    h, HANDLERS = HANDLERS, None
    return h or set()


def install(monitor=True):
    global _installed
    if _installed:
        return
    if os.environ.get(_env.GUARD) != "1":
        raise RuntimeError(f"{_env.GUARD}=1 must be set for instrumentation")
    _installed = True
    jax.random.choice = _choice
    Config.random_key = property(_random_key_get)
    if monitor and hasattr(sys, "monitoring"):
        try:
            sys.monitoring.use_tool_id(_TOOL, "pwv")
            sys.monitoring.register_callback(_TOOL, sys.monitoring.events.PY_START, _py_start)
            sys.monitoring.set_events(_TOOL, sys.monitoring.events.PY_START)
        except Exception:
            pass
