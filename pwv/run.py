"""Executes JSON programs against the real library as the *client*, recording every call.

For each step: pre-snapshot, sampler/handler recording on, the public call, post-snapshot.
Oracles (pwv.oracles) judge the resulting StepRecord objects.
"""
import os
import signal
import traceback

import numpy as np

from pwv import env as _env

_env.setup()

from pwv import instrument, opspec  # noqa: E402
from pwv.world import World, snapshot, denote, live, impl_dims, Malformed, blocks  # noqa: E402
from photon_weave.photon_weave import Config  # noqa: E402
from photon_weave.state.composite_envelope import CompositeEnvelope  # noqa: E402

REPO_PKG = os.path.join(_env.REPO, "photon_weave") + os.sep


class StepTimeout(BaseException):
    """wall-clock watchdog around one library call; its firing is inconclusive, never a violation"""


STEP_TIMEOUT = int(os.environ.get("PWV_STEP_TIMEOUT", "60"))


def _alarm(signum, frame):
    raise StepTimeout()


class StepRecord:
    __slots__ = (
        "i", "step", "pre", "post", "ret", "exc", "exc_type", "exc_frame", "exc_msg", "draws",
        "handlers", "contraction", "world", "cache", "user_arrays", "op_obj", "ctx_calls", "ctx_held", "user_list_before",
        "key_reused",
    )

    def __init__(self):
        self.cache = {}


def exc_frame(e):
    """innermost photon_weave frame of an exception: 'file.py:qualname'"""
    tb = e.__traceback__
    last = "?"
    for fs, _ in traceback.walk_tb(tb):
        fn = fs.f_code.co_filename
        if fn.startswith(REPO_PKG):
            last = f"{os.path.basename(fn)}:{fs.f_code.co_qualname}"
    return last


class Runner:
    """Holds one world and executes steps on it."""

    def __init__(self, decl, steer_rng=None, mode="steer", script=None, contraction=True, seed=None):
        instrument.install()
        self.C = Config()
        self.C.set_contraction(bool(contraction))
        if seed is not None:
            self.C.set_seed(int(seed))
        self.world = World(decl)
        self.records = []
        S = instrument.SAMPLER
        S.mode = mode
        S.rng = steer_rng
        S.script = list(script) if script else None
        self.op_cache = {}  # op id -> Operation object (for reuse, C15)
        self.kraus_cache = {}  # kraus id -> the very list of operator arrays (re-used by later steps)

    # ------------------------------------------------------------------ helpers
    def o(self, name):
        return self.world.objs[name]

    def targets(self, step):
        return [self.o(n) for n in step.get("targets", [])]

    def get_op(self, step):
        spec = step["op"]
        oid = step.get("op_id")
        calls = []
        held = []
        if oid is not None and oid in self.op_cache:
            return self.op_cache[oid]
        op = opspec.build_operation(spec, calls, held)
        res = (op, calls, held)
        if oid is not None:
            self.op_cache[oid] = res
        return res

    # ------------------------------------------------------------------ dispatch
    def call(self, step, rec):
        k = step["k"]
        via = step.get("via", "state")
        w = self.world
        tg = self.targets(step)
        if k == "apply":
            op, calls, held = self.get_op(step)
            rec.op_obj = op
            rec.ctx_calls = calls
            rec.ctx_held = held
            rec.user_arrays = _user_arrays_op(op)
            if via == "state":
                return tg[0].apply_operation(op)
            if via == "env":
                return self.o(step["env"]).apply_operation(op, *tg)
            return self.o(step["ce"]).apply_operation(op, *tg)
        if k == "kraus":
            kid = step.get("kraus_id")
            if kid is not None and kid in self.kraus_cache:
                ops = self.kraus_cache[kid]  # the caller re-uses his own list of operators
            else:
                ops = opspec.arrays(step["ops"])
                if kid is not None:
                    self.kraus_cache[kid] = ops
            rec.user_arrays = ops
            rec.user_list_before = [(id(x), tuple(x.shape)) for x in ops]
            if via == "state":
                return tg[0].apply_kraus(ops)
            if via == "env":
                return self.o(step["env"]).apply_kraus(ops, *tg)
            return self.o(step["ce"]).apply_kraus(ops, *tg)
        if k == "measure":
            kw = {}
            if "sep" in step:
                kw["separate_measurement"] = bool(step["sep"])
            if "destr" in step:
                kw["destructive"] = bool(step["destr"])
            if via == "state":
                return tg[0].measure(**kw)
            if via == "env":
                return self.o(step["env"]).measure(*tg, **kw)
            return self.o(step["ce"]).measure(*tg, **kw)
        if k == "povm":
            ops = opspec.arrays(step["ops"])
            rec.user_arrays = list(ops)
            kw = {}
            if "destr" in step:
                kw["destructive"] = bool(step["destr"])
            if via == "state":
                if step.get("partial"):
                    kw["partial"] = True
                return tg[0].measure_POVM(ops, **kw)
            if via == "env":
                return self.o(step["env"]).measure_POVM(ops, *tg, **kw)
            return self.o(step["ce"]).measure_POVM(ops, *tg, **kw)
        if k == "composite":
            ce = CompositeEnvelope(*[self.o(n) for n in step["args"]])
            w.add_composite(step["name"], ce, step["args"])
            return None
        if k == "combine":
            if via == "env":
                return self.o(step["env"]).combine()
            return self.o(step["ce"]).combine(*tg)
        if k == "reorder":
            if via == "env":
                return self.o(step["env"]).reorder(*tg)
            return self.o(step["ce"]).reorder(*tg)
        if k == "expand":
            if via == "state":
                return tg[0].expand()
            if via == "env":
                return self.o(step["env"]).expand()
            return self.o(step["ce"]).expand(*tg)
        if k == "contract":
            kw = {}
            if "final" in step:
                from photon_weave.state.expansion_levels import ExpansionLevel
                kw["final"] = ExpansionLevel[step["final"]]
            if "tol" in step and via in ("state", "env"):
                kw["tol"] = float(step["tol"])
            if via == "state":
                return tg[0].contract(**kw)
            if via == "env":
                return self.o(step["env"]).contract(**kw)
            return self.o(step["ce"]).contract(*tg)
        if k == "trace_out":
            if via == "state":
                return tg[0].trace_out()
            if via == "env":
                return self.o(step["env"]).trace_out(*tg)
            return self.o(step["ce"]).trace_out(*tg)
        if k == "resize":
            if via == "state":
                return tg[0].resize(int(step["n"]))
            if via == "env":
                return self.o(step["env"]).resize_fock(int(step["n"]))
            return self.o(step["ce"]).resize_fock(int(step["n"]), tg[0])
        if k == "config":
            if "contraction" in step:
                self.C.set_contraction(bool(step["contraction"]))
            if "seed" in step:
                self.C.set_seed(int(step["seed"]))
            return None
        raise ValueError(f"unknown step kind {k}")

    def step(self, step):
        rec = StepRecord()
        rec.i = len(self.records)
        rec.step = step
        rec.world = self.world
        rec.user_arrays = None
        rec.op_obj = None
        rec.ctx_calls = None
        rec.ctx_held = None
        rec.user_list_before = None
        rec.contraction = bool(self.C.contractions)
        rec.pre = snapshot(self.world)
        instrument.SAMPLER.begin()
        instrument.handlers_begin()
        rec.ret, rec.exc = None, None
        rec.exc_type = rec.exc_frame = rec.exc_msg = None
        old = signal.signal(signal.SIGALRM, _alarm)
        signal.alarm(STEP_TIMEOUT)
        try:
            rec.ret = self.call(step, rec)
        except Exception as e:  # noqa: BLE001 - every failure of the library is an observation
            rec.exc = e
            rec.exc_type = type(e).__name__
            rec.exc_frame = exc_frame(e)
            rec.exc_msg = str(e)[:200]
        except StepTimeout as e:
            rec.exc = e
            rec.exc_type = "StepTimeout"
            rec.exc_frame = exc_frame(e)
            rec.exc_msg = f"no return within {STEP_TIMEOUT}s"
        finally:
            signal.alarm(0)
            signal.signal(signal.SIGALRM, old)
            rec.handlers = instrument.handlers_end()
            rec.draws = instrument.SAMPLER.end()
        # keys of this call's draws that an EARLIER call of this program already used (re-seeding starts afresh)
        seen = self.__dict__.setdefault("_keys_seen", set())
        if step.get("k") == "config" and "seed" in step:
            seen.clear()
        rec.key_reused = [d for d in (rec.draws or []) if d.get("key") is not None and d["key"] in seen]
        seen.update(d["key"] for d in (rec.draws or []) if d.get("key") is not None)
        rec.post = snapshot(self.world)
        self.records.append(rec)
        return rec


def _user_arrays_op(op):
    out = []
    kw = getattr(op, "kwargs", {}) or {}
    if "operator" in kw:
        out.append(kw["operator"])
    return out


# ---------------------------------------------------------------------- record helpers (cached)


def rec_dims(rec, extra=None):
    """common padded Fock dims for pre and post: max of implementation dims (+ extra requirements)"""
    key = ("D", tuple(sorted((extra or {}).items())))
    if key in rec.cache:
        return rec.cache[key]
    D = {}
    for sn in (rec.pre, rec.post):
        for n, d in impl_dims(sn).items():
            if d is not None and sn.subs[n]["kind"] == "F":
                D[n] = max(D.get(n, 0), d)
    for n, d in (extra or {}).items():
        D[n] = max(D.get(n, 0), d)
    rec.cache[key] = D
    return D


def rho_pre(rec, names=None, extra=None):
    D = rec_dims(rec, extra)
    return denote(rec.pre, names, D)


def rho_post(rec, names=None, extra=None):
    D = rec_dims(rec, extra)
    return denote(rec.post, names, D)
