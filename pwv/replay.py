"""Re-run a replay file verbosely.   python -m pwv.replay out/replays/C01-xxxx.json [--all]

exit 1 if the recorded violation signature is reproduced, 0 otherwise.
"""
import json
import sys

import numpy as np

from pwv import env as _env

_env.setup()


def main():
    path = sys.argv[1]
    d = json.load(open(path))
    r = d.get("replay", d)
    prop = r.get("prop")
    from pwv import props
    from pwv.run import Runner
    from pwv.world import blocks, Malformed, live

    conf = props.PROPS[prop]
    if "replay" in conf:
        sys.exit(conf["replay"](d))
    if "steps" not in r or "decl" not in r:
        print(json.dumps(d, indent=1, default=str)[:6000])
        print("(this replay is a parameter record of a contract / twin check; re-run the check with the same VERIF_SEED to reproduce)")
        sys.exit(0)
    runner = Runner(r["decl"], steer_rng=np.random.default_rng(0), mode=r.get("mode", "steer"),
                    script=[x for x in r.get("script", [])], contraction=r.get("contraction", True))
    hit = False
    for i, st in enumerate(r["steps"]):
        rec = runner.step(st)
        brief = {k: (v if k not in ("ops", "op") else (v.get("fam") + "." + v.get("type") if isinstance(v, dict) else f"[{len(v)} ops]")) for k, v in st.items()}
        print(f"--- step {i}: {brief}")
        if rec.exc is not None:
            print(f"    raised {rec.exc_type} at {rec.exc_frame}: {rec.exc_msg}")
            import os, traceback
            if os.environ.get("PWV_TB"):
                traceback.print_exception(rec.exc)
        elif rec.ret is not None:
            s = repr(rec.ret)
            print(f"    returned {s[:200]}")
        if rec.draws:
            for dr in rec.draws:
                print(f"    draw at {dr['caller']}: p={None if dr['p'] is None else np.round(dr['p'], 5).tolist()} idx={dr['idx']} forced={dr['forced']}")
        try:
            bl = blocks(rec.post)
            print("    blocks:", [(b["kind"], b["level"], b["members"]) for b in bl], "live:", live(rec.post))
        except Malformed as e:
            print("    post malformed:", e)
        for oracle in (conf.get("oracles") or conf.get("replay_oracles") or []):
            for v in oracle(rec):
                print(f"    [{v['prop']}] {v['status']} {v['mode']} {v['detail'][:300]} sig={v['sig']}")
                if v["status"] == "violated" and v["mode"] == d.get("mode"):
                    hit = True
    print("REPRODUCED" if hit else "not reproduced")
    sys.exit(1 if hit else 0)


if __name__ == "__main__":
    main()
