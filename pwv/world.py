"""Worlds (named object graphs built from JSON), structural snapshots and their denotation.

A snapshot is taken with plain attribute reads only (no library logic is executed), and the
denotation (joint density matrix of all live subsystems, canonical order) is a pure function
of a snapshot.
"""
import numpy as np

from pwv import env as _env

_env.setup()

import jax.numpy as jnp  # noqa: E402
from photon_weave.state.fock import Fock  # noqa: E402
from photon_weave.state.polarization import Polarization, PolarizationLabel  # noqa: E402
from photon_weave.state.custom_state import CustomState  # noqa: E402
from photon_weave.state.envelope import Envelope  # noqa: E402
from photon_weave.state.composite_envelope import CompositeEnvelope  # noqa: E402
from photon_weave.state.expansion_levels import ExpansionLevel  # noqa: E402

POLVEC = {
    "H": np.array([1, 0], complex),
    "V": np.array([0, 1], complex),
    "R": np.array([1, 1j], complex) / np.sqrt(2),
    "L": np.array([1, -1j], complex) / np.sqrt(2),
}
LEVELS = {None: None, ExpansionLevel.Label: "L", ExpansionLevel.Vector: "V", ExpansionLevel.Matrix: "M"}


def c2j(a):
    """complex ndarray -> JSON nested [re, im]"""
    a = np.asarray(a, complex)
    return {"shape": list(a.shape), "re": a.real.ravel().tolist(), "im": a.imag.ravel().tolist()}


def j2c(j):
    return (np.array(j["re"], float) + 1j * np.array(j["im"], float)).reshape(j["shape"])


class Malformed(Exception):
    pass


class TooBig(Exception):
    """joint dimension beyond what the monitor is willing to build (inconclusive, never a verdict)"""


MAX_JOINT = 2600


# --------------------------------------------------------------------------- world


class World:
    def __init__(self, decl):
        self.decl = decl
        self.objs = {}
        self.subs = []  # canonical subsystem names
        self.envs = []
        self.ces = []
        self._names = {}
        self.merge_group = {}  # handle name -> group id (by construction of the program)
        self.member_of = {}  # subsystem name -> group id
        self._ng = 0
        for it in decl:
            self._make(it)

    def _reg(self, name, obj):
        self.objs[name] = obj
        self._names[id(obj)] = name

    def name(self, obj):
        return self._names.get(id(obj), f"?{type(obj).__name__}")

    def _make(self, it):
        t = it["t"]
        if t == "env":
            if it.get("parts"):
                # the caller builds the parts and hands them to the envelope (label through the constructor)
                pi = it.get("pol")
                f = Fock()
                p = Polarization(PolarizationLabel[pi["l"]]) if pi and pi["k"] == "label" else Polarization()
                e = Envelope(wavelength=float(it.get("wavelength", 1550)), fock=f, polarization=p)
            else:
                e = Envelope()
            self._reg(it["name"], e)
            self._reg(it["name"] + ".f", e.fock)
            self._reg(it["name"] + ".p", e.polarization)
            self.envs.append(it["name"])
            self.subs += [it["name"] + ".f", it["name"] + ".p"]
            set_init(e.fock, it.get("fock"))
            set_init(e.polarization, it.get("pol"))
        elif t == "custom":
            x = CustomState(it["d"])
            self._reg(it["name"], x)
            self.subs.append(it["name"])
            set_init(x, it.get("init"))
        elif t == "fock":
            f = Fock()
            self._reg(it["name"], f)
            self.subs.append(it["name"])
            set_init(f, it.get("init"))
        elif t == "pol":
            p = Polarization()
            self._reg(it["name"], p)
            self.subs.append(it["name"])
            set_init(p, it.get("init"))
        else:
            raise ValueError(t)

    def add_composite(self, name, ce, args=()):
        self._reg(name, ce)
        self.ces.append(name)
        old = set()
        subs = []
        for a in args:
            if a in self.merge_group:
                old.add(self.merge_group[a])
            elif a in self.envs:
                subs += [a + ".f", a + ".p"]
                g = self.member_of.get(a + ".f")
                if g is not None:
                    old.add(g)
            else:
                subs.append(a)
                g = self.member_of.get(a)
                if g is not None:
                    old.add(g)
        self._ng += 1
        g = self._ng
        for h, hg in list(self.merge_group.items()):
            if hg in old:
                self.merge_group[h] = g
        for n, ng in list(self.member_of.items()):
            if ng in old:
                self.member_of[n] = g
        self.merge_group[name] = g
        for n in subs:
            self.member_of[n] = g

    def kind(self, name):
        o = self.objs[name]
        return "F" if isinstance(o, Fock) else "P" if isinstance(o, Polarization) else "X"

    def env_of(self, name):
        """name of the envelope a subsystem belongs to (by construction), or None"""
        if "." in name:
            return name.split(".")[0]
        return None

    def partner(self, name):
        if name.endswith(".f"):
            return name[:-2] + ".p"
        if name.endswith(".p"):
            return name[:-2] + ".f"
        return None


def set_init(s, init):
    """Put a subsystem into a given local state by direct attribute assignment."""
    if init is None:
        return
    k = init["k"]
    if isinstance(s, Fock):
        if init.get("dims") is not None:
            s.dimensions = int(init["dims"])
        if k == "label":
            s.state = int(init["n"])
        elif k == "vec":
            s.state = jnp.array(j2c(init["v"]).reshape(-1, 1))
            s.expansion_level = ExpansionLevel.Vector
        elif k == "mat":
            s.state = jnp.array(j2c(init["m"]))
            s.expansion_level = ExpansionLevel.Matrix
    elif isinstance(s, Polarization):
        if k == "label":
            s.state = PolarizationLabel[init["l"]]
        elif k == "vec":
            s.state = jnp.array(j2c(init["v"]).reshape(-1, 1))
            s.expansion_level = ExpansionLevel.Vector
        elif k == "mat":
            s.state = jnp.array(j2c(init["m"]))
            s.expansion_level = ExpansionLevel.Matrix
    else:
        if k == "label":
            s.state = int(init["n"])
        elif k == "vec":
            s.state = jnp.array(j2c(init["v"]).reshape(-1, 1))
            s.expansion_level = ExpansionLevel.Vector
        elif k == "mat":
            s.state = jnp.array(j2c(init["m"]))
            s.expansion_level = ExpansionLevel.Matrix


# --------------------------------------------------------------------------- raw reads


def raw_index(s):
    return s.index if isinstance(s, Fock) else object.__getattribute__(s, "_index")


def raw_level(s):
    return s.expansion_level if isinstance(s, Fock) else object.__getattribute__(s, "_expansion_level")


def raw_dims(s):
    return s.dimensions if isinstance(s, Fock) else object.__getattribute__(s, "_dimensions")


def raw_measured(s):
    if isinstance(s, Fock):
        return bool(s.measured)
    if isinstance(s, Polarization):
        return bool(object.__getattribute__(s, "_measured"))
    return False


def raw_envelope(s):
    if isinstance(s, Fock):
        return s.envelope
    if isinstance(s, Polarization):
        try:
            return object.__getattribute__(s, "_envelope")
        except AttributeError:
            return None
    return None


def raw_composite(s):
    try:
        return object.__getattribute__(s, "_composite_envelope")
    except AttributeError:
        return None


def state_repr(st):
    """(kind, payload) with kind in none/label/vec/mat/other; arrays kept by reference (immutable)."""
    if st is None:
        return ("none", None)
    if isinstance(st, PolarizationLabel):
        return ("plabel", st.name)
    if isinstance(st, (bool, np.bool_)):
        return ("other", repr(st))
    if isinstance(st, (int, np.integer)):
        return ("label", int(st))
    if hasattr(st, "shape"):
        sh = tuple(st.shape)
        if len(sh) == 2 and sh[1] == 1:
            return ("vec", st)
        if len(sh) == 2 and sh[0] == sh[1]:
            return ("mat", st)
        return ("arr", st)
    return ("other", repr(st))


def arr_np(a):
    return np.asarray(a).astype(complex, copy=False)


# --------------------------------------------------------------------------- snapshot


class Snap:
    """Plain-data structural snapshot of a world."""

    __slots__ = ("subs", "envs", "conts", "handles", "order", "uidmap", "merge_group")


def snapshot(w: World) -> Snap:
    sn = Snap()
    sn.order = list(w.subs)
    sn.merge_group = dict(w.merge_group)  # which handles were merged so far (program knowledge at this moment)
    sn.subs = {}
    for n in w.subs:
        s = w.objs[n]
        idx = raw_index(s)
        if isinstance(idx, list):
            idx = tuple(idx)
        env = raw_envelope(s)
        ce = raw_composite(s)
        sn.subs[n] = {
            "kind": w.kind(n),
            "measured": raw_measured(s),
            "index": idx,
            "level": LEVELS.get(raw_level(s), "?"),
            "dims": raw_dims(s),
            "state": state_repr(s.state),
            "env": w.name(env) if env is not None else None,
            "ce_uid": getattr(ce, "uid", None) if ce is not None else None,
            "ce_name": w.name(ce) if ce is not None else None,
        }
    sn.envs = {}
    for n in w.envs:
        e = w.objs[n]
        sn.envs[n] = {
            "state": state_repr(e.state),
            "level": LEVELS.get(e._expansion_level, "?"),
            "measured": bool(e.measured),
            "ce_id": e.composite_envelope_id,
            "fock_is": e.fock is w.objs[n + ".f"],
            "pol_is": e.polarization is w.objs[n + ".p"],
        }
    # containers, reached through every registered handle and every uid the objects mention
    sn.handles = {}
    sn.conts = {}
    sn.uidmap = {}
    reach = []
    for n in w.ces:
        h = w.objs[n]
        uid = h.uid
        cont = CompositeEnvelope._containers.get(uid)
        sn.handles[n] = {"uid": uid, "cont": id(cont) if cont is not None else None}
        reach.append((uid, cont))
    for d in list(sn.subs.values()):
        if d["ce_uid"] is not None:
            reach.append((d["ce_uid"], CompositeEnvelope._containers.get(d["ce_uid"])))
    for d in list(sn.envs.values()):
        if d["ce_id"] is not None:
            reach.append((d["ce_id"], CompositeEnvelope._containers.get(d["ce_id"])))
    for uid, cont in reach:
        sn.uidmap[uid] = id(cont) if cont is not None else None
        if cont is None or id(cont) in sn.conts:
            continue
        sn.conts[id(cont)] = {
            "composite_uid": cont.composite_uid,
            "envelopes": [w.name(e) for e in cont.envelopes],
            "state_objs": [w.name(s) for s in cont.state_objs],
            "states": [
                {
                    "id": id(ps),
                    "level": LEVELS.get(ps.expansion_level, "?"),
                    "state": state_repr(ps.state),
                    "objs": [w.name(s) for s in ps.state_objs],
                }
                for ps in cont.states
            ],
        }
    return sn


# --------------------------------------------------------------------------- blocks & denotation


def live(sn: Snap):
    return [n for n in sn.order if not sn.subs[n]["measured"]]


def blocks(sn: Snap):
    """Partition of live subsystems into storage blocks, found by where the data actually is.

    Returns list of dicts {kind: own|env|ps, members:[names in tensor order], level, state:(kind,arr), key}
    Raises Malformed if a live subsystem is stored in zero or several places.
    """
    out = []
    placed = {}
    lv = live(sn)
    # product states
    seen_ps = set()
    for cid, c in sn.conts.items():
        for k, ps in enumerate(c["states"]):
            mem = ps["objs"]
            if not mem or ps["id"] in seen_ps:
                continue
            seen_ps.add(ps["id"])
            b = {"kind": "ps", "members": list(mem), "level": ps["level"], "state": ps["state"], "key": ("ps", ps["id"])}
            out.append(b)
            for m in mem:
                placed.setdefault(m, []).append(b)
    # envelopes
    for en, e in sn.envs.items():
        if e["state"][0] == "none":
            continue
        f, p = en + ".f", en + ".p"
        fi, pi = sn.subs[f]["index"], sn.subs[p]["index"]
        # a stale envelope array (both members store themselves / elsewhere) is not a block
        if not (isinstance(fi, int) and isinstance(pi, int)):
            continue
        if {fi, pi} != {0, 1}:
            raise Malformed(f"envelope {en} member indices {fi},{pi}")
        mem = [None, None]
        mem[fi], mem[pi] = f, p
        b = {"kind": "env", "members": mem, "level": e["level"], "state": e["state"], "key": ("env", en)}
        out.append(b)
        for m in mem:
            placed.setdefault(m, []).append(b)
    # own
    for n in sn.order:
        s = sn.subs[n]
        if s["state"][0] != "none":
            b = {"kind": "own", "members": [n], "level": s["level"], "state": s["state"], "key": ("own", n)}
            out.append(b)
            placed.setdefault(n, []).append(b)
    for n in lv:
        k = len(placed.get(n, []))
        if k == 0:
            raise Malformed(f"live subsystem {n} is stored nowhere")
        if k > 1:
            raise Malformed(f"live subsystem {n} is stored in {k} places: {[b['key'][0] for b in placed[n]]}")
    # drop blocks that hold only destroyed subsystems (must not exist, C13 judges); keep those with live members
    res = []
    for b in out:
        if any(m in lv for m in b["members"]):
            if not all(m in lv for m in b["members"]):
                raise Malformed(f"block {b['key'][0]} mixes live and destroyed members {b['members']}")
            res.append(b)
    return res


def fock_dim(sub):
    """dimension of a subsystem as implied by the snapshot (label Fock with dims<0 -> n+1)"""
    d = sub["dims"]
    if sub["kind"] == "F" and (d is None or d < 0):
        st = sub["state"]
        if st[0] == "label":
            return st[1] + 1
        raise Malformed("Fock with negative dimensions holding no label")
    return int(d)


def block_rho(b, sn):
    """density matrix of a block over its members' implementation dims"""
    dims = [fock_dim(sn.subs[m]) for m in b["members"]]
    n = int(np.prod(dims))
    kind, payload = b["state"]
    if kind == "label":
        if len(dims) != 1:
            raise Malformed("label in a multi-member block")
        if not (0 <= payload < dims[0]):
            raise Malformed(f"label {payload} outside dimension {dims[0]}")
        v = np.zeros(dims[0], complex)
        v[payload] = 1
        return np.outer(v, v.conj()), dims
    if kind == "plabel":
        v = POLVEC[payload]
        return np.outer(v, v.conj()), dims
    if kind == "vec":
        a = arr_np(payload)
        if a.shape != (n, 1):
            raise Malformed(f"vector shape {a.shape} but member dims {dims}")
        v = a[:, 0]
        return np.outer(v, v.conj()), dims
    if kind == "mat":
        a = arr_np(payload)
        if a.shape != (n, n):
            raise Malformed(f"matrix shape {a.shape} but member dims {dims}")
        return a, dims
    raise Malformed(f"unreadable state of kind {kind}")


def pad(rho, dims, newdims):
    if list(dims) == list(newdims):
        return rho
    t = rho.reshape(*dims, *dims)
    pads = [(0, nd - d) for d, nd in zip(dims, newdims)] * 2
    if any(p[1] < 0 for p in pads):
        raise Malformed(f"implementation dims {dims} exceed reference dims {newdims}")
    t = np.pad(t, pads)
    n = int(np.prod(newdims))
    return t.reshape(n, n)


def denote(sn: Snap, names=None, D=None):
    """Joint density matrix of `names` (default: all live) in the given order.

    D: dict name -> padded dimension (for Fock); missing -> implementation dimension.
    Subsystems not in `names` are traced out.
    Returns (rho, dims)
    """
    D = D or {}
    bl = blocks(sn)
    lv = live(sn)
    if names is None:
        names = lv
    order = []
    dims = []
    rho = np.array([[1.0 + 0j]])
    tot = 1
    for b in bl:
        for m in b["members"]:
            dd = fock_dim(sn.subs[m])
            tot *= max(D.get(m, 0), dd) if sn.subs[m]["kind"] == "F" else dd
    if tot > MAX_JOINT:
        raise TooBig(f"joint dimension {tot}")
    for b in bl:
        r, d = block_rho(b, sn)
        nd = [max(D.get(m, 0), dd) if sn.subs[m]["kind"] == "F" else dd for m, dd in zip(b["members"], d)]
        r = pad(r, d, nd)
        rho = np.kron(rho, r)
        order += b["members"]
        dims += nd
    k = len(order)
    for n in names:
        if n not in order:
            raise Malformed(f"{n} not live")
    t = rho.reshape(*dims, *dims) if k else rho
    keep = [order.index(n) for n in names]
    drop = [i for i in range(k) if i not in keep]
    if drop:
        sub_in = list(range(k)) + [(i if i in drop else k + i) for i in range(k)]
        sub_out = keep + [k + i for i in keep]
        t = np.einsum(t, sub_in, sub_out)
    else:
        t = t.transpose(*keep, *[k + i for i in keep]) if k else t
    cd = [dims[i] for i in keep]
    n = int(np.prod(cd)) if cd else 1
    return t.reshape(n, n), cd


def impl_dims(sn: Snap):
    """name -> implementation dimension of every live subsystem"""
    out = {}
    for n in live(sn):
        try:
            out[n] = fock_dim(sn.subs[n])
        except Malformed:
            out[n] = None
    return out


def storage_of(sn: Snap, name):
    """'own' | 'env' | 'ps' | 'none' | 'multi' for one subsystem"""
    try:
        for b in blocks(sn):
            if name in b["members"]:
                return b["kind"], b["level"], len(b["members"])
    except Malformed:
        return "malformed", "?", 0
    return "none", None, 0
