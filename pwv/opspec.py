"""JSON operation specs  ->  (a) real photon_weave Operation objects  (b) reference operators."""
import numpy as np

from pwv import env as _env

_env.setup()

import jax.numpy as jnp  # noqa: E402
from photon_weave.operation import (  # noqa: E402
    CompositeOperationType,
    CustomStateOperationType,
    FockOperationType,
    Operation,
    PolarizationOperationType,
)
from photon_weave.state.fock import Fock  # noqa: E402
from photon_weave.state.polarization import Polarization  # noqa: E402
from photon_weave.state.custom_state import CustomState  # noqa: E402
from photon_weave._math import ops as pw_ops  # noqa: E402

from pwv import refops  # noqa: E402
from pwv.world import c2j, j2c  # noqa: E402

FAMS = {
    "fock": FockOperationType,
    "pol": PolarizationOperationType,
    "custom": CustomStateOperationType,
    "comp": CompositeOperationType,
}
KINDCLS = {"F": Fock, "P": Polarization, "X": CustomState}

# operation types that renormalise (property C01 statement)
RENORM = {
    ("fock", "Creation"): True,
    ("fock", "Annihilation"): True,
    ("fock", "Squeeze"): True,
    ("fock", "PhaseShift"): False,
    ("fock", "Displace"): False,
    ("fock", "Identity"): False,
    ("fock", "Custom"): False,
    ("fock", "Expresion"): False,
}


def renormalises(spec):
    return RENORM.get((spec["fam"], spec["type"]), True)


def cnum(x):
    if isinstance(x, (list, tuple)):
        return complex(x[0], x[1])
    return x


# ---- expression trees: JSON <-> python tuples
#   leaf forms: {"num": x | [re, im]}  {"np": arr}  {"jnp": arr}  "name"
#   node form:  ["cmd", child, child, ...]


def build_expr(j, impl=True):
    if isinstance(j, list):
        return tuple([j[0]] + [build_expr(c, impl) for c in j[1:]])
    if isinstance(j, str):
        return j
    if "num" in j:
        return cnum(j["num"])
    if "np" in j:
        return np.array(j2c(j["np"]))
    if "jnp" in j:
        return jnp.array(j2c(j["jnp"])) if impl else np.array(j2c(j["jnp"]))
    raise ValueError(j)


# context entries: {"f": "destroy"|"create"|"number"|"eye", "i": k}  or {"f": "const", "m": arr}
def build_context(j, impl=True, calls=None, held=None):
    ctx = {}
    for name, e in j.items():
        ctx[name] = _ctx_fn(name, e, impl, calls, held)
    return ctx


def _ctx_fn(name, e, impl, calls, held=None):
    f = e["f"]
    kept = None
    if f == "const" and e.get("held") and impl:
        # a numpy array the user holds on to: the same object is handed out at every call
        kept = np.array(j2c(e["m"]))
        if held is not None:
            held.append((name, kept, kept.tobytes()))

    def fn(dims):
        if calls is not None:
            calls.append((name, list(dims) if isinstance(dims, (list, tuple)) else dims))
        if f == "const":
            if kept is not None:
                return kept
            m = j2c(e["m"])
            return jnp.array(m) if impl else m
        d = dims[e["i"]]
        if impl:
            if f == "destroy":
                return pw_ops.annihilation_operator(d)
            if f == "create":
                return pw_ops.creation_operator(d)
            if f == "number":
                return pw_ops.number_operator(d)
            if f == "eye":
                return jnp.eye(d)
        else:
            if f == "destroy":
                return refops.destroy(d)
            if f == "create":
                return refops.create(d)
            if f == "number":
                return refops.number(d)
            if f == "eye":
                return np.eye(d, dtype=complex)
        raise ValueError(f)

    return fn


def types_value(spec):
    """the `state_types` argument of an expression-defined composite operation in the form the spec asks for"""
    form = spec.get("types_form", "tuple")
    if form == "str":      # spelled by name ("Fock", "Polarization", "CustomState"), which the library resolves
        return tuple(KINDCLS[k].__name__ for k in spec["state_types"])
    if form == "list":     # a caller-owned mutable list of classes
        return [KINDCLS[k] for k in spec["state_types"]]
    if form == "mixed":    # a caller-owned list mixing names and classes
        return [KINDCLS[k].__name__ if i % 2 else KINDCLS[k] for i, k in enumerate(spec["state_types"])]
    return tuple(KINDCLS[k] for k in spec["state_types"])


def build_operation(spec, calls=None, held=None):
    """real Operation from a JSON spec"""
    fam, typ = spec["fam"], spec["type"]
    T = FAMS[fam][typ]
    kw = {}
    for k in ("phi", "theta", "omega", "eta"):
        if k in spec:
            kw[k] = spec[k]
    if "alpha" in spec:
        kw["alpha"] = cnum(spec["alpha"])
    if "zeta" in spec:
        kw["zeta"] = cnum(spec["zeta"])
    if "operator" in spec:
        kw["operator"] = jnp.array(j2c(spec["operator"]))
    if "expr" in spec:
        kw["expr"] = build_expr(spec["expr"])
        kw["context"] = build_context(spec["context"], True, calls, held)
    if "state_types" in spec:
        kw["state_types"] = types_value(spec)
    return Operation(T, **kw)


def ref_operator(spec, dims):
    """reference matrix for the spec on targets of dimensions `dims` (independent of photon_weave)"""
    fam, typ = spec["fam"], spec["type"]
    if fam == "pol":
        if typ == "Custom":
            return j2c(spec["operator"])
        kw = {k: spec[k] for k in ("phi", "theta", "omega") if k in spec}
        return refops.pol_op(typ, **kw)
    if fam == "fock":
        d = dims[0]
        if typ == "Creation":
            return refops.create(d)
        if typ == "Annihilation":
            return refops.destroy(d)
        if typ == "PhaseShift":
            return refops.phase(d, spec["phi"])
        if typ == "Displace":
            return refops.displace(d, cnum(spec["alpha"]))
        if typ == "Squeeze":
            return refops.squeeze(d, cnum(spec["zeta"]))
        if typ == "Identity":
            return np.eye(d, dtype=complex)
        if typ == "Custom":
            return j2c(spec["operator"])
        if typ == "Expresion":
            return refops.evaluate(build_expr(spec["expr"], False), build_context(spec["context"], False), list(dims))
    if fam == "custom":
        if typ == "Custom":
            return j2c(spec["operator"])
        if typ == "Expresion":
            return refops.evaluate(build_expr(spec["expr"], False), build_context(spec["context"], False), list(dims))
    if fam == "comp":
        if typ == "NonPolarizingBeamSplitter":
            return refops.beamsplitter(dims[0], dims[1], spec["eta"])
        if typ == "CXPolarization":
            return refops.cnot()
        if typ == "CZPolarization":
            return refops.cz()
        if typ == "SwapPolarization":
            return refops.swap()
        if typ == "CSwapPolarization":
            return refops.cswap()
        if typ == "Expression":
            return refops.evaluate(build_expr(spec["expr"], False), build_context(spec["context"], False), list(dims))
    raise KeyError((fam, typ))


def arrays(jlist):
    return [jnp.array(j2c(a)) for a in jlist]


def np_arrays(jlist):
    return [j2c(a) for a in jlist]


def enc_arrays(lst):
    return [c2j(a) for a in lst]
