"""Drivers / hooks for C14 (seed reproducibility), C17 (fault injection), C11 (Mach-Zehnder), C08, C18."""
import json
import math
import os
import subprocess
import sys
import time

import numpy as np

from pwv import env as _env

_env.setup()

from pwv import instrument, ref  # noqa: E402
from pwv.gen import Gen  # noqa: E402
from pwv.run import Runner  # noqa: E402
from pwv.world import Malformed, TooBig, c2j, denote, live, impl_dims, snapshot  # noqa: E402
from pwv.oracles import outcome_names  # noqa: E402


def V(prop, ok, mode, detail, cell, **sig):
    return {"prop": prop, "status": "held" if ok else "violated", "mode": "" if ok else mode, "detail": detail,
            "cell": cell, "sig": sig}


def INC(prop, mode, cell=None):
    return {"prop": prop, "status": "inconclusive", "mode": mode, "detail": "", "cell": cell, "sig": {}}


# =========================================================================== C14


def c14_program(rng, tier):
    """a program with measurements/POVMs (free sampler) prepared by a few operations"""
    opts = {"approx_ops": False, "p_label": 0.2, "p_vec": 0.5,
            "weights": {"config": 0, "measure": 6, "povm": 3, "apply1": 4, "applyc": 2, "kraus": 1, "combine": 1.5,
                        "reorder": 0.5, "trace_out": 0.3, "resize": 0.2, "expand": 0.5, "contract": 0.3}}
    gen = Gen(rng, "measure", tier, opts)
    decl = gen.decl()
    return gen, decl


def run_free(decl, steps, seed, contraction, gen=None, nsteps=0):
    """run (or generate while running) a program with the REAL sampler after set_seed(seed).
    returns (steps, log) where log = list of per-step (outcomes, draw idx list, key bytes list) and final state digest"""
    S = instrument.SAMPLER
    runner = Runner(decl, steer_rng=None, mode="free", contraction=contraction, seed=seed)
    k0 = len(S.key_events)
    log = []
    steps = list(steps)
    i = 0
    while True:
        if gen is not None:
            if i >= nsteps:
                break
            st = gen.next_step(runner)
            if st is None:
                break
            steps.append(st)
        else:
            if i >= len(steps):
                break
            st = steps[i]
        rec = runner.step(st)
        o = None
        if rec.exc is None and st["k"] in ("measure", "povm"):
            o, _ = outcome_names(rec)
            if st["k"] == "povm" and isinstance(rec.ret, tuple):
                o = dict(o or {})
                o["<povm>"] = int(rec.ret[0])
        log.append({"k": st["k"], "raised": rec.exc_type, "outcomes": o, "idx": [d["idx"] for d in rec.draws],
                    "keys": [d["key"] for d in rec.draws]})
        i += 1
        if rec.exc_type == "StepTimeout":
            break
    final = None
    try:
        sn = snapshot(runner.world)
        r, d = denote(sn)
        final = (live(sn), d, r)
    except (Malformed, TooBig):
        pass
    return steps, log, final, S.key_events[k0:]


def same_log(a, b):
    if len(a) != len(b):
        return False, f"{len(a)} vs {len(b)} steps"
    for i, (x, y) in enumerate(zip(a, b)):
        if x["raised"] != y["raised"]:
            return False, f"step {i}: raised {x['raised']} vs {y['raised']}"
        if x["outcomes"] != y["outcomes"]:
            return False, f"step {i} ({x['k']}): outcomes {x['outcomes']} vs {y['outcomes']}"
        if x["idx"] != y["idx"]:
            return False, f"step {i}: drawn indices {x['idx']} vs {y['idx']}"
        if x["keys"] != y["keys"]:
            return False, f"step {i}: different keys handed to the sampler"
    return True, ""


def same_final(fa, fb):
    if fa is None or fb is None:
        return None, "unreadable"
    if fa[0] != fb[0] or fa[1] != fb[1]:
        return False, f"live/dims {fa[0]}{fa[1]} vs {fb[0]}{fb[1]}"
    if not (np.all(np.isfinite(fa[2])) and np.all(np.isfinite(fb[2]))):
        return None, "non-finite state (left behind by another defect)"
    e = ref.maxdiff(fa[2], fb[2])
    return e <= 1e-9, f"maxabs={e:.3g}"


def log_digest(log, final):
    out = []
    for x in log:
        out.append([x["k"], x["raised"], sorted((x["outcomes"] or {}).items()), x["idx"],
                    [None if k is None else k.hex() for k in x["keys"]]])
    fin = None
    if final is not None:
        fin = [final[0], final[1], np.round(final[2].real, 9).tolist(), np.round(final[2].imag, 9).tolist()]
    return {"log": out, "final": fin}


def c14_child():
    """fresh-process run: reads {decl, steps, seed, contraction} on stdin, prints the digest"""
    instrument.install()
    job = json.load(sys.stdin)
    _, log, final, _ = run_free(job["decl"], job["steps"], job["seed"], job["contraction"])
    print("DIGEST" + json.dumps(log_digest(log, final)))


def c14_driver(a, col):
    from photon_weave.photon_weave import Config
    instrument.install()
    S = instrument.SAMPLER
    t0 = time.time()
    prog = 0
    nchild = 0
    maxchild = 2 if a.tier == "quick" else 6
    while time.time() - t0 < a.budget:
        rng = np.random.default_rng([a.seed, 14, a.shard, prog])
        prog += 1
        seed = int(rng.integers(0, 2**31 - 1))
        if rng.random() < 0.2:
            seed = int(rng.choice([0, 1, 2, 2**31 - 1, 2**32 - 1]))  # "for every seed": the edges too
        contraction = bool(rng.random() < 0.5)
        try:
            gen, decl = c14_program(rng, a.tier)
            steps, log1, fin1, keys1 = run_free(decl, [], seed, contraction, gen=gen, nsteps=int(rng.integers(4, 10)))
        except Exception as e:  # noqa: BLE001
            col.extra.setdefault("harness_errors", []).append(f"{type(e).__name__}: {e}"[:200])
            col.incon["harness-gen-error"] = col.incon.get("harness-gen-error", 0) + 1
            continue
        ndraws = sum(len(x["idx"]) for x in log1)

        def replay(decl=decl, steps=steps, seed=seed, contraction=contraction):
            return {"prop": "C14", "kind": "reseed", "decl": decl, "steps": steps, "seed": seed, "contraction": contraction}

        cell_d = "0" if ndraws == 0 else "1-2" if ndraws <= 2 else "3+"
        # ---- (c) key hygiene within the run
        handed = [k["handed"] for k in keys1]
        held = set()
        ok_h, det = True, ""
        for ev in keys1:
            held.add(ev["before"])
        for j, ev in enumerate(keys1):
            if ev["after"] == ev["before"]:
                ok_h, det = False, f"draw {j}: the stored key did not change"
            if ev["handed"] in held or ev["handed"] == ev["after"]:
                ok_h, det = False, f"draw {j}: the key handed out equals a stored key"
        if len(set(handed)) != len(handed):
            ok_h, det = False, "the same key was handed out twice"
        used = [k for x in log1 for k in x["keys"]]
        if len(set(used)) != len(used):
            ok_h, det = False, "the sampler was called twice with the same key"
        if any(k not in set(handed) for k in used):
            ok_h, det = False, "the sampler was called with a key that did not come from Config.random_key"
        if ndraws:
            col.add([V("C14", ok_h, "key-reuse", det, ("keys", cell_d), ndraws=cell_d)], replay)
        # ---- unrelated activity in between: other seeds, other programs, raw draws
        Config().set_seed(int(rng.integers(0, 2**31 - 1)))
        try:
            g2, d2 = c14_program(np.random.default_rng([a.seed, 14, a.shard, prog, 99]), a.tier)
            run_free(d2, [], int(rng.integers(0, 2**31 - 1)), not contraction, gen=g2, nsteps=int(rng.integers(0, 6)))
        except Exception:  # noqa: BLE001
            pass
        for _ in range(int(rng.integers(0, 4))):
            _ = Config().random_key
        # ---- (a) re-seed, same program on fresh objects
        try:
            _, log2, fin2, _ = run_free(decl, steps, seed, contraction)
        except Exception as e:  # noqa: BLE001
            col.extra.setdefault("harness_errors", []).append(f"{type(e).__name__}: {e}"[:200])
            continue
        ok, det = same_log(log1, log2)
        col.add([V("C14", ok, "not-reproducible", f"same seed, same process, after unrelated activity: {det}", ("reseed", cell_d, len(steps) > 6), ndraws=cell_d, where="same-process")], replay)
        if ok:
            okf, detf = same_final(fin1, fin2)
            if okf is not None:
                col.add([V("C14", okf, "final-state-differs", detf, ("reseed-final", cell_d), ndraws=cell_d, where="same-process")], replay)
        # ---- (b) fresh process
        if nchild < maxchild and ndraws >= 1:
            nchild += 1
            job = json.dumps({"decl": decl, "steps": steps, "seed": seed, "contraction": contraction})
            try:
                r = subprocess.run([_env.PY, "-c", "from pwv.drivers_misc import c14_child; c14_child()"], input=job, text=True,
                                   capture_output=True, timeout=240, env=_env.child_env(), cwd=_env.VERIF)
                line = [ln for ln in r.stdout.splitlines() if ln.startswith("DIGEST")]
                if not line:
                    col.incon["child-failed"] = col.incon.get("child-failed", 0) + 1
                else:
                    dg = json.loads(line[0][6:])
                    mine = json.loads(json.dumps(log_digest(log1, fin1)))
                    okc = dg["log"] == mine["log"]
                    col.add([V("C14", okc, "not-reproducible", "fresh process with the same seed gave a different outcome/key sequence", ("fresh-process", cell_d), ndraws=cell_d, where="fresh-process")], replay)
                    if okc and dg["final"] is not None and mine["final"] is not None:
                        okf = dg["final"][0] == mine["final"][0] and np.allclose(np.array(dg["final"][2]), np.array(mine["final"][2]), atol=1e-8) and np.allclose(np.array(dg["final"][3]), np.array(mine["final"][3]), atol=1e-8)
                        col.add([V("C14", okf, "final-state-differs", "fresh process", ("fresh-process-final", cell_d), ndraws=cell_d, where="fresh-process")], replay)
            except subprocess.TimeoutExpired:
                col.incon["child-timeout"] = col.incon.get("child-timeout", 0) + 1
        col.programs += 1
        col.steps += 2 * len(steps)
        if len(col.samples) < 2:
            col.samples.append({"seed": seed, "decl": decl, "steps": [{k: v for k, v in s.items() if k != "ops"} for s in steps[:5]],
                                "outcomes": [x["outcomes"] for x in log1][:5]})
    # ---- statistical guard: successive measurements of identically prepared 50/50 states are not copies
    from photon_weave.state.polarization import Polarization, PolarizationLabel
    from photon_weave.state.fock import Fock
    from photon_weave.state.expansion_levels import ExpansionLevel
    import jax.numpy as jnp
    Config().set_seed(int(a.seed * 1000 + a.shard))
    S.mode = "free"
    outs = []
    for i in range(256):
        p = Polarization(PolarizationLabel.R)
        outs.append(int(list(p.measure().values())[0]))
    col.add([V("C14", len(set(outs)) > 1, "constant-sequence", f"256 measurements of |R> all gave {outs[0]}", ("stat-guard", "pol"))],
            lambda: {"prop": "C14", "kind": "stat"})
    outs = []
    for i in range(256):
        f = Fock()
        f.dimensions = 2
        f.state = jnp.array([[1 / math.sqrt(2)], [1 / math.sqrt(2)]])
        f.expansion_level = ExpansionLevel.Vector
        outs.append(int(list(f.measure().values())[0]))
    col.add([V("C14", len(set(outs)) > 1, "constant-sequence", f"256 measurements of (|0>+|1>)/sqrt2 all gave {outs[0]}", ("stat-guard", "fock"))],
            lambda: {"prop": "C14", "kind": "stat"})


# =========================================================================== C17 fault injection

FAULTS = ["kraus-not-tp", "kraus-wrong-size", "povm-wrong-size", "custom-op-wrong-size", "wrong-kind", "outside-container",
          "annihilate-vacuum", "shrink-occupied", "destroyed", "missing-parameter", "duplicate-operands", "annihilate-state"]


def dead_request(gen, v, rng, t):
    """a request addressing the destroyed subsystem `t` through one of the entry points that can name it: the
    subsystem itself, its envelope, a handle of its composite (there optionally together with a live subsystem)"""
    w = v["w"]
    sn = v["sn"]
    k = w.kind(t)
    pick = lambda seq: seq[int(rng.integers(0, len(seq)))]  # noqa: E731
    vias = [{"via": "state"}]
    e = w.env_of(t)
    if e is not None:
        vias.append({"via": "env", "env": e})
    g = v["member_of"].get(t)
    if g is not None:
        for h in v["handles"].get(g, [])[:2]:
            vias.append({"via": "ce", "ce": h})
    via = pick(vias) if rng.random() < 0.7 else vias[0]
    targets = [t]
    x = rng.random()
    ce_vias = [q for q in vias if q["via"] == "ce"]
    if ce_vias and rng.random() < 0.25:
        # a multi-operand request that names the destroyed subsystem after live ones (nothing may have been
        # consumed or moved by the time the request is refused)
        mates = [n for n in v["live"] if v["member_of"].get(n) == g and n != t]
        if mates:
            m = pick(mates)
            order = [m, t] if rng.random() < 0.7 else [t, m]
            y = rng.random()
            if y < 0.4 and k == "P" and w.kind(m) == "P":
                st = {"k": "apply", "op": {"fam": "comp", "type": pick(["CXPolarization", "CZPolarization", "SwapPolarization"])}, "targets": order}
            elif y < 0.7:
                st = {"k": "combine", "targets": order}
            else:
                dm = v["dims"].get(m) or 2
                dd = sn.subs[t]["dims"]
                dt = 2 if k == "P" else (dd if dd and dd > 0 else 2)
                if dm * dt <= 36:
                    st = {"k": "kraus", "ops": [c2j(np.eye(dm * dt))], "targets": order}
                else:
                    st = {"k": "combine", "targets": order}
            st.update(pick(ce_vias))
            return st
    if x < 0.35:
        op = gen.pol_op() if k == "P" else {"fam": "fock", "type": pick(["Creation", "PhaseShift", "Identity"]), "phi": 0.3}
        if k == "F" and op["type"] != "PhaseShift":
            op.pop("phi", None)
        if op.get("nonunitary"):
            op = {"fam": "pol", "type": "X"}
        st = {"k": "apply", "op": op, "targets": targets}
    elif x < 0.7:
        if via["via"] == "ce" and rng.random() < 0.5:
            # the same request also names a live member of the composite: nothing may be measured
            mates = [n for n in v["live"] if v["member_of"].get(n) == g and n != t]
            if mates:
                targets = [t, pick(mates)]
                if rng.random() < 0.5:
                    targets.reverse()
        if via["via"] == "env" and rng.random() < 0.3 and all(sn.subs[m]["measured"] for m in (e + ".f", e + ".p")):
            targets = []  # the whole envelope, both parts of which are gone
        st = {"k": "measure", "targets": targets}
        if rng.random() < 0.3:
            st["destr"] = False
        if rng.random() < 0.3:
            st["sep"] = True
    elif x < 0.85:
        d = 2
        if k != "P":
            dd = sn.subs[t]["dims"]
            d = dd if dd and dd > 0 else 2
        st = {"k": "kraus", "ops": [c2j(np.eye(d))], "targets": targets}
    else:
        d = 2
        if k != "P":
            dd = sn.subs[t]["dims"]
            d = dd if dd and dd > 0 else 2
        st = {"k": "povm", "ops": [c2j(np.eye(d))], "targets": targets, "destr": bool(rng.random() < 0.5)}
    st.update(via)
    return st


def make_fault(gen, v, rng, kind=None):
    """an invalid request against the current world (or None if this kind is not available now)"""
    w = v["w"]
    lv = v["live"]
    sn = v["sn"]
    kind = kind or str(rng.choice(FAULTS))
    if not lv:
        return None
    pick = lambda seq: seq[int(rng.integers(0, len(seq)))]  # noqa: E731
    with_dims = [n for n in lv if sn.subs[n]["dims"] and sn.subs[n]["dims"] > 0]
    if kind in ("kraus-not-tp", "kraus-wrong-size", "povm-wrong-size"):
        if not with_dims:
            return None
        tg = gen.pick_targets(v, 2) or [pick(with_dims)]
        tg = [t for t in tg if t in with_dims] or [pick(with_dims)]
        d = int(np.prod([v["dims"][t] for t in tg]))
        if d > 24:
            tg = tg[:1]
            d = v["dims"][tg[0]]
        via = gen.pick_via(v, tg)
        if via is None:
            return None
        if kind == "kraus-not-tp":
            Ks = [K * 0.8 for K in ref.kraus_from_dilation(rng, d, 2)]
            st = {"k": "kraus", "ops": [c2j(K) for K in Ks], "targets": tg}
        elif kind == "kraus-wrong-size":
            Ks = ref.kraus_from_dilation(rng, d + 1, 2)
            st = {"k": "kraus", "ops": [c2j(K) for K in Ks], "targets": tg}
        else:
            Ms = ref.povm_set(rng, d + 1, 2)
            st = {"k": "povm", "ops": [c2j(M) for M in Ms], "targets": tg, "destr": bool(rng.random() < 0.5)}
        st.update(via)
        st["fault"] = kind
        return st
    if kind == "custom-op-wrong-size":
        cands = [n for n in lv if w.kind(n) in ("P", "X")]
        if not cands:
            return None
        t = pick(cands)
        d0 = v["dims"][t]
        fam = "pol" if w.kind(t) == "P" else "custom"
        x = rng.random()
        if x < 0.5:
            M = ref.haar_unitary(rng, d0 + 1)                      # square, too big
        elif x < 0.65 and d0 > 1:
            M = ref.haar_unitary(rng, d0 - 1)                      # square, too small
        elif x < 0.85:
            M = ref.haar_unitary(rng, d0 + 1)[: max(1, d0 - int(rng.integers(0, 2))), :d0]   # k x d: right number of columns only
        else:
            M = ref.haar_unitary(rng, d0 + 1)[:d0, :]               # d x (d+1): right number of rows only
        if M.shape == (d0, d0):
            M = ref.haar_unitary(rng, d0 + 1)
        st = {"k": "apply", "op": {"fam": fam, "type": "Custom", "operator": c2j(M)}, "targets": [t]}
        via = gen.pick_via(v, [t])
        if via is None or (fam == "custom" and via["via"] == "env"):
            return None
        st.update(via)
        st["fault"] = kind
        return st
    if kind == "wrong-kind":
        t = pick(lv)
        k = w.kind(t)
        e = w.env_of(t)
        pt = w.partner(t)
        if e and pt in lv and v["env_ok"].get(e) and rng.random() < 0.35:
            # an operation of the PARTNER's kind, operands given as (wrong kind, right kind), through the envelope;
            # where possible an operation object that an earlier step already applied
            seen = getattr(gen, "ops_seen", None) or []
            fam = "pol" if w.kind(pt) == "P" else "fock"
            cands = [(j, o) for j, o in enumerate(seen) if o["fam"] == fam and o["type"] not in ("Custom", "Expresion")]
            if cands:
                j, o = cands[int(rng.integers(0, len(cands)))]
                st = {"k": "apply", "op": o, "op_id": j, "targets": [t, pt], "via": "env", "env": e, "fault": kind}
            else:
                op = {"fam": "pol", "type": "X"} if fam == "pol" else {"fam": "fock", "type": "Creation"}
                st = {"k": "apply", "op": op, "targets": [t, pt], "via": "env", "env": e, "fault": kind}
            return st
        seen = getattr(gen, "ops_seen", None) or []
        foreign = [(j, o) for j, o in enumerate(seen) if o["fam"] in ("custom", "comp") and not (o["fam"] == "comp" and "F" in o.get("state_types", []) and k != "F")]
        if e and v["env_ok"].get(e) and k in ("F", "P") and foreign and rng.random() < 0.3:
            # an operation object of another family (custom-state / composite) that an earlier step already applied,
            # addressed to a part of the envelope through the envelope
            j, o = foreign[int(rng.integers(0, len(foreign)))]
            tg = [t] if o["fam"] == "custom" or pt not in lv else [t, pt]
            return {"k": "apply", "op": o, "op_id": j, "targets": tg, "via": "env", "env": e, "fault": kind}
        if k == "P":
            op = {"fam": "fock", "type": "Creation"}
        elif k == "F":
            op = gen.pol_op()
            op.pop("nonunitary", None)
        else:
            op = {"fam": "pol", "type": "X"}
        via = gen.pick_via(v, [t])
        if via is None or (k == "X" and via["via"] == "env"):
            return None
        st = {"k": "apply", "op": op, "targets": [t]}
        st.update(via)
        st["fault"] = kind
        return st
    if kind == "outside-container":
        # an operand that does not belong to the envelope / composite the request is made on
        envs = [e for e in w.envs if v["env_ok"][e]]
        if len(envs) >= 2 and rng.random() < 0.6:
            e1, e2 = [str(x) for x in rng.choice(envs, size=2, replace=False)]
            t = e2 + (".p" if rng.random() < 0.5 else ".f")
            if t not in lv or not (sn.subs[t]["dims"] and sn.subs[t]["dims"] > 0):
                return None
            x = rng.random()
            d = v["dims"][t]
            if x < 0.3:
                op = {"fam": "pol", "type": "X"} if t.endswith(".p") else {"fam": "fock", "type": "Creation"}
                return {"k": "apply", "op": op, "targets": [t], "via": "env", "env": e1, "fault": kind}
            if x < 0.6:
                Ks = ref.kraus_from_dilation(rng, d, 2)
                return {"k": "kraus", "ops": [c2j(K) for K in Ks], "targets": [t], "via": "env", "env": e1, "fault": kind}
            if x < 0.8:
                Ms = ref.povm_set(rng, d, 2)
                return {"k": "povm", "ops": [c2j(M) for M in Ms], "targets": [t], "via": "env", "env": e1, "fault": kind,
                        "destr": bool(rng.random() < 0.5)}
            if x < 0.9:
                return {"k": "measure", "targets": [t], "via": "env", "env": e1, "fault": kind, "sep": True}
            return {"k": "reorder", "targets": [t], "via": "env", "env": e1, "fault": kind}
        groups = v["handles"]
        if not groups:
            return None
        g = pick(sorted(groups))
        ce = pick(groups[g])
        outsiders = [n for n in lv if v["member_of"].get(n) != g and sn.subs[n]["dims"] and sn.subs[n]["dims"] > 0]
        if not outsiders:
            return None
        t = pick(outsiders)
        k = w.kind(t)
        d = v["dims"][t]
        insiders = [n for n in lv if v["member_of"].get(n) == g]
        same = [n for n in insiders if w.kind(n) == k]
        x = rng.random()
        if x < 0.25:
            op = {"fam": "pol", "type": "X"} if k == "P" else {"fam": "fock", "type": pick(["Creation", "PhaseShift"]), "phi": 0.4} if k == "F" \
                else {"fam": "custom", "type": "Custom", "operator": c2j(ref.haar_unitary(rng, d))}
            if op.get("type") == "Creation":
                op.pop("phi", None)
            return {"k": "apply", "op": op, "targets": [t], "via": "ce", "ce": ce, "fault": kind,
                    "note": "operand not a member of this composite"}
        if x < 0.4:
            Ks = ref.kraus_from_dilation(rng, d, 2)
            return {"k": "kraus", "ops": [c2j(K) for K in Ks], "targets": [t], "via": "ce", "ce": ce, "fault": kind}
        if x < 0.5:
            Ms = ref.povm_set(rng, d, 2)
            return {"k": "povm", "ops": [c2j(M) for M in Ms], "targets": [t], "via": "ce", "ce": ce, "fault": kind, "destr": bool(rng.random() < 0.5)}
        if x < 0.6:
            tg = [t] if not insiders or rng.random() < 0.5 else [pick(insiders), t]
            return {"k": "measure", "targets": tg, "via": "ce", "ce": ce, "fault": kind, "destr": bool(rng.random() < 0.5)}
        if x < 0.7 and k == "P":
            pin = [n for n in same]
            if not pin:
                return None
            return {"k": "apply", "op": {"fam": "comp", "type": "CXPolarization"}, "targets": [pick(pin), t], "via": "ce", "ce": ce, "fault": kind}
        if x < 0.7 and k == "F":
            return {"k": "resize", "n": int(d + rng.integers(1, 3)), "targets": [t], "via": "ce", "ce": ce, "fault": kind}
        if x < 0.85:
            tg = [t] if not insiders or rng.random() < 0.3 else ([pick(insiders), t] if rng.random() < 0.5 else [t, pick(insiders)])
            return {"k": "combine", "targets": tg, "via": "ce", "ce": ce, "fault": kind}
        if x < 0.93 and insiders:
            return {"k": "reorder", "targets": [t, pick(insiders)] if rng.random() < 0.5 else [pick(insiders), t], "via": "ce", "ce": ce, "fault": kind}
        return {"k": "trace_out", "targets": [t], "via": "ce", "ce": ce, "fault": kind}
    if kind == "annihilate-vacuum":
        focks = [n for n in lv if w.kind(n) == "F"]
        vac = []
        for f in focks:
            nm, dg = gen.support(v, f)
            if nm == 0:
                vac.append(f)
        if not vac:
            return None
        t = pick(vac)
        via = gen.pick_via(v, [t])
        st = {"k": "apply", "op": {"fam": "fock", "type": "Annihilation"}, "targets": [t]}
        st.update(via)
        st["fault"] = kind
        return st
    if kind == "annihilate-state":
        # a custom operator of a renormalising family whose kernel contains the whole support of the target's
        # reduced state: the result has trace zero and cannot be renormalised (the general form of "annihilating the vacuum")
        cands = [n for n in lv if w.kind(n) in ("P", "X", "F") and v["dims"].get(n)]
        rng.shuffle(cands)
        for t in cands[:3]:
            try:
                r, _ = denote(sn, [t])
            except Malformed:
                continue
            if w.kind(t) == "F":
                # a custom Fock operator (not a renormalising type, but the all-zero result is no state either):
                # the lowering matrix on the vacuum, or any matrix whose kernel holds the support; never smaller
                # than the space (no implicit shrink)
                d0 = r.shape[0]
                if d0 < 2 or d0 > 8:
                    continue
                evf, Uf = np.linalg.eigh((r + r.conj().T) / 2)
                kerf = evf < 1e-15
                if not kerf.any() or np.any((evf >= 1e-15) & (evf < 1e-6)):
                    continue
                if abs(r[0, 0] - 1) < 1e-14 and rng.random() < 0.6:
                    M = np.diag(np.sqrt(np.arange(1, d0)), 1).astype(complex)
                else:
                    M = ref.haar_unitary(rng, d0) @ (Uf[:, kerf] @ Uf[:, kerf].conj().T)
                if np.real(np.trace(M @ r @ M.conj().T)) > 1e-28:
                    continue
                via = gen.pick_via(v, [t])
                if via is None:
                    continue
                st = {"k": "apply", "op": {"fam": "fock", "type": "Custom", "operator": c2j(M)}, "targets": [t]}
                st.update(via)
                st["fault"] = kind
                return st
            ev, U = np.linalg.eigh((r + r.conj().T) / 2)
            ker = ev < 1e-15
            if not ker.any() or ker.all() or np.any((ev >= 1e-15) & (ev < 1e-6)):
                continue   # full rank, or no clean gap between kernel and support
            Uk = U[:, ker]
            d0 = r.shape[0]
            M = ref.haar_unitary(rng, d0) @ (Uk @ Uk.conj().T) * float(rng.uniform(0.5, 1.5))
            if np.real(np.trace(M @ r @ M.conj().T)) > 1e-28:
                continue
            fam = "pol" if w.kind(t) == "P" else "custom"
            via = gen.pick_via(v, [t])
            if via is None or (fam == "custom" and via["via"] == "env"):
                continue
            st = {"k": "apply", "op": {"fam": fam, "type": "Custom", "operator": c2j(M)}, "targets": [t]}
            st.update(via)
            st["fault"] = kind
            return st
        return None
    if kind == "shrink-occupied":
        focks = [n for n in lv if w.kind(n) == "F"]
        cands = []
        for f in focks:
            nm, dg = gen.support(v, f)
            if nm is not None and nm >= 1:
                cands.append((f, nm))
        if not cands:
            return None
        f, nm = pick(cands)
        via = gen.pick_via(v, [f])
        st = {"k": "resize", "targets": [f], "n": int(rng.integers(1, nm + 1)), "failure_value": False}
        st.update(via)
        st["fault"] = kind
        return st
    if kind == "destroyed":
        dead = [n for n in sn.order if sn.subs[n]["measured"]]
        if not dead:
            return None
        st = dead_request(gen, v, rng, pick(dead))
        st["fault"] = kind
        return st
    if kind == "missing-parameter":
        t = pick(lv)
        k = w.kind(t)
        if k == "P":
            op = {"fam": "pol", "type": pick(["RX", "RY", "RZ", "U3", "Custom"])}
        elif k == "F":
            op = {"fam": "fock", "type": pick(["PhaseShift", "Displace", "Squeeze"])}
        else:
            op = {"fam": "custom", "type": "Custom"}
        via = gen.pick_via(v, [t])
        if via is None or (k == "X" and via["via"] == "env"):
            return None
        st = {"k": "apply", "op": op, "targets": [t]}
        st.update(via)
        st["fault"] = kind
        return st
    if kind == "duplicate-operands" and rng.random() < 0.3:
        # through the envelope: the same member twice, or more operands than the envelope has parts
        envs = [e for e in w.envs if v["env_ok"][e] and e + ".f" in lv and e + ".p" in lv
                and sn.subs[e + ".f"]["dims"] and sn.subs[e + ".f"]["dims"] > 0]
        if envs:
            e = pick(envs)
            f, pz = e + ".f", e + ".p"
            df = v["dims"][f]
            tg = pick([[f, f], [pz, pz], [f, pz, f], [pz, f, pz]])
            d = int(np.prod([v["dims"][t] for t in tg]))
            if d <= 64:
                if rng.random() < 0.6:
                    Ks = ref.kraus_from_dilation(rng, d, 2)
                    return {"k": "kraus", "ops": [c2j(K) for K in Ks], "targets": tg, "via": "env", "env": e, "fault": kind}
                Ms = ref.povm_set(rng, d, 2)
                return {"k": "povm", "ops": [c2j(M) for M in Ms], "targets": tg, "via": "env", "env": e, "fault": kind,
                        "destr": bool(rng.random() < 0.5)}
    if kind == "duplicate-operands":
        groups = {}
        for n in lv:
            g = v["member_of"].get(n)
            if g is not None and w.kind(n) == "P" and v["handles"].get(g):
                groups.setdefault(g, []).append(n)
        if not groups:
            return None
        g = pick(sorted(groups))
        p = pick(groups[g])
        if rng.random() < 0.5:
            return {"k": "apply", "op": {"fam": "comp", "type": pick(["CXPolarization", "SwapPolarization", "CZPolarization"])},
                    "targets": [p, p], "via": "ce", "ce": pick(v["handles"][g]), "fault": kind}
        Ks = ref.kraus_from_dilation(rng, 4, 2)
        return {"k": "kraus", "ops": [c2j(K) for K in Ks], "targets": [p, p], "via": "ce", "ce": pick(v["handles"][g]), "fault": kind}
    return None


def c17_post_step(state):
    def hook(runner, rec, gen, rng):
        if rec.step.get("fault"):
            return []
        q = state.get("q", 0.45)
        if rng.random() > q:
            return []
        try:
            v = gen.view(runner)
            kinds = list(FAULTS)
            rng.shuffle(kinds)
            for k in kinds[:4]:
                st = make_fault(gen, v, rng, k)
                if st is not None:
                    return [st]
        except (Malformed, TooBig):
            return []
        return []
    return hook


def continuation_oracle(prop="C17", trigger=None, horizon=2):
    """valid steps right after a trigger step (default: a rejected request) are judged by the ordinary transition
    oracles and reported under `prop` with mode prefix continuation-"""
    from pwv import oracles as O
    st = {"since": 99}
    trigger = trigger or (lambda rec: bool(rec.step.get("fault")))

    def judge(rec):
        if trigger(rec):
            st["since"] = 0
            return []
        if rec.step.get("dead_probe"):
            return []
        st["since"] += 1
        if st["since"] > horizon:
            return []
        out = []
        for vs in (O.judge_apply(rec, "C01"), O.judge_apply(rec, "C03"), O.judge_c06(rec), O.judge_c02(rec)):
            for v in vs:
                v = dict(v)
                v["prop"] = prop
                if v["status"] == "violated":
                    v["mode"] = "continuation-" + v["mode"]
                v["cell"] = ("continuation",) + tuple(v["cell"] or ())
                out.append(v)
        return out
    return judge


# =========================================================================== C11 Mach-Zehnder


def c11_mzi(a, col, budget):
    """50/50 splitter, phase phi on the fed arm, 50/50 splitter; one photon in: outputs sin^2(phi/2), cos^2(phi/2)"""
    t0 = time.time()
    n = 0
    while time.time() - t0 < budget:
        rng = np.random.default_rng([a.seed, 11, a.shard, n, 5])
        n += 1
        phi = float(rng.uniform(-2 * math.pi, 4 * math.pi))
        fed = int(rng.integers(0, 2))
        decl = [{"t": "env", "name": "E0", "fock": {"k": "label", "n": 1 if fed == 0 else 0, "dims": None if rng.random() < 0.5 else 3},
                 "pol": {"k": "label", "l": str(rng.choice(["H", "V", "R"]))}},
                {"t": "env", "name": "E1", "fock": {"k": "label", "n": 1 if fed == 1 else 0, "dims": None if rng.random() < 0.5 else 2},
                 "pol": {"k": "label", "l": "H"}}]
        arm = f"E{fed}.f"
        order = ["E0.f", "E1.f"] if rng.random() < 0.5 else ["E1.f", "E0.f"]
        via_ph = str(rng.choice(["state", "env", "ce"]))
        ph = {"k": "apply", "op": {"fam": "fock", "type": "PhaseShift", "phi": phi}, "targets": [arm], "via": via_ph}
        if via_ph == "env":
            ph["env"] = f"E{fed}"
        if via_ph == "ce":
            ph["ce"] = "CE0"
        bs = lambda o: {"k": "apply", "op": {"fam": "comp", "type": "NonPolarizingBeamSplitter", "eta": math.pi / 4}, "targets": list(o), "via": "ce", "ce": "CE0"}  # noqa: E731
        steps = [{"k": "composite", "name": "CE0", "args": ["E0", "E1"]}, bs(order), ph, bs(order[::-1] if rng.random() < 0.5 else order)]
        contraction = bool(rng.random() < 0.5)
        runner = Runner(decl, steer_rng=rng, mode="steer", contraction=contraction)

        def replay(decl=decl, steps=steps, contraction=contraction):
            return {"prop": "C11", "decl": decl, "steps": steps, "contraction": contraction, "script": [], "mode": "steer"}

        bad = None
        for st in steps:
            rec = runner.step(st)
            if rec.exc is not None:
                bad = f"{st['k']} raised {rec.exc_type}: {rec.exc_msg}"
                break
        cell = ("mzi", via_ph, contraction, contracts_angle(phi))
        if bad:
            col.add([V("C11", False, "mzi-exception", bad, cell, via=via_ph)], replay)
            continue
        try:
            sn = snapshot(runner.world)
            r, d = denote(sn, ["E0.f", "E1.f"])
        except (Malformed, TooBig) as e:
            col.add([V("C11", False, "mzi-unreadable", str(e), cell, via=via_ph)], replay)
            continue
        dg = np.real(np.diag(r)).reshape(d)
        p_fed_out = dg[1, 0] if fed == 0 else dg[0, 1]
        p_other = dg[0, 1] if fed == 0 else dg[1, 0]
        want_f, want_o = math.sin(phi / 2) ** 2, math.cos(phi / 2) ** 2
        ok = abs(p_fed_out - want_f) < 1e-8 and abs(p_other - want_o) < 1e-8
        col.add([V("C11", ok, "mzi-probabilities", f"phi={phi:.6g}: P(fed port)={p_fed_out:.9g} (sin^2={want_f:.9g}), P(other)={p_other:.9g} (cos^2={want_o:.9g})", cell, via=via_ph)], replay)
        col.programs += 1
        col.steps += len(steps)


def contracts_angle(x):
    return "neg" if x < 0 else ">2pi" if x > 2 * math.pi else "0..2pi"
