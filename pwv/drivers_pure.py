"""Drivers for the properties decided by contracts on pure functions: C12, C16, C19."""
import math
import time

import numpy as np

from pwv import env as _env

_env.setup()

from pwv import contracts, refops  # noqa: E402


def _V(prop, ok, mode, detail, cell, **sig):
    return {"prop": prop, "status": "held" if ok else "violated", "mode": "" if ok else mode, "detail": detail,
            "cell": cell, "sig": sig}


def _mk_replay(prop, kind, **kw):
    def f():
        d = {"prop": prop, "kind": kind}
        d.update(kw)
        return d
    return f


def _flush(prop, col, replay):
    vs = contracts.drain(prop)
    col.add(vs, replay)
    return len(vs)


# =========================================================================== C12


def c12_driver(a, col):
    import jax.numpy as jnp
    import photon_weave._math.ops as ops
    from photon_weave.operation import (CompositeOperationType, FockOperationType, Operation,
                                        PolarizationOperationType)
    from pwv import opspec

    contracts.install(("ops",))
    rng = np.random.default_rng([a.seed, 12, a.shard])
    t0 = time.time()
    thorough = a.tier == "thorough"
    maxcut = 40 if thorough else 24
    rounds = 0
    while time.time() - t0 < a.budget:
        rounds += 1
        # ---- fixed gates
        for name in ("identity_operator", "hadamard_operator", "x_operator", "y_operator", "z_operator", "s_operator",
                     "t_operator", "sx_operator", "controlled_not_operator", "controlled_z_operator", "swap_operator",
                     "controlled_swap_operator"):
            U = np.asarray(getattr(ops, name)(), complex)
            col.add([_V("C12", np.allclose(U @ U.conj().T, np.eye(len(U)), atol=1e-9), "not-unitary", name, (name, "unitary"), fn=name)],
                    _mk_replay("C12", "fixed", fn=name))
        _flush("C12", col, _mk_replay("C12", "fixed"))
        X = np.asarray(ops.sx_operator(), complex)
        col.add([_V("C12", np.allclose(X @ X, refops.SX, atol=1e-9), "identity-broken", "SX^2 != X", ("sx", "square"), fn="sx_operator")],
                _mk_replay("C12", "fixed", fn="sx_operator"))
        # ---- rotations
        for _ in range(40):
            th = float(rng.choice([rng.uniform(-4 * math.pi, 0), rng.uniform(0, 2 * math.pi), rng.uniform(2 * math.pi, 6 * math.pi)]))
            th2 = float(rng.uniform(-3, 3))
            for nm in ("rx_operator", "ry_operator", "rz_operator"):
                f = getattr(ops, nm)
                A, B, C = (np.asarray(f(x), complex) for x in (th, th2, th + th2))
                _flush("C12", col, _mk_replay("C12", "rot", fn=nm, theta=th))
                ok = np.allclose(A @ B, C, atol=1e-9) and np.allclose(A @ A.conj().T, np.eye(2), atol=1e-9)
                col.add([_V("C12", ok, "identity-broken", f"{nm}: R(a)R(b)!=R(a+b) or not unitary at a={th:.6g}, b={th2:.6g}",
                            (nm, "additive", contracts.angle_class(th)), fn=nm)], _mk_replay("C12", "rot", fn=nm, theta=th, theta2=th2))
            ph, om = float(rng.uniform(-7, 7)), float(rng.uniform(-7, 7))
            U = np.asarray(ops.u3_operator(ph, th, om), complex)
            _flush("C12", col, _mk_replay("C12", "u3", phi=ph, theta=th, omega=om))
            col.add([_V("C12", np.allclose(U @ U.conj().T, np.eye(2), atol=1e-9), "not-unitary", f"u3({ph},{th},{om})",
                        ("u3", "unitary"), fn="u3_operator")], _mk_replay("C12", "u3", phi=ph, theta=th, omega=om))
        # ---- ladder operators, all cutoffs
        for d in range(1, maxcut + 1):
            A = np.asarray(ops.annihilation_operator(d), complex)
            Cr = np.asarray(ops.creation_operator(d), complex)
            N = np.asarray(ops.number_operator(d), complex)
            _flush("C12", col, _mk_replay("C12", "ladder", cutoff=d))
            ok = True
            det = ""
            if d >= 2:
                comm = A @ Cr - Cr @ A
                ok = np.allclose(comm[: d - 1, : d - 1], np.eye(d - 1), atol=1e-9)
                det = "[a,a^dag] != 1 below cutoff"
                for n in range(1, d):
                    e = np.zeros(d, complex)
                    e[n] = 1
                    w = np.zeros(d, complex)
                    w[n - 1] = math.sqrt(n)
                    if not np.allclose(A @ e, w, atol=1e-9):
                        ok, det = False, f"a|{n}> != sqrt({n})|{n - 1}>"
                if not np.allclose(N, Cr @ A, atol=1e-9):
                    ok, det = False, "n != a^dag a"
            col.add([_V("C12", ok, "identity-broken", f"cutoff {d}: {det}", ("ladder", "algebra", d), fn="ladder")],
                    _mk_replay("C12", "ladder", cutoff=d))
        # ---- displacement / squeezing / phase
        for _ in range(10):
            d = int(rng.integers(1, maxcut + 1))
            al = _axis(complex(rng.uniform(0.05, 1.8) * np.exp(1j * _phase(rng))))
            ze = _axis(complex(rng.uniform(0.05, 0.8) * np.exp(1j * _phase(rng))))
            th = _angle(rng)
            D = np.asarray(ops.displacement_operator(d, al), complex)
            Dm = np.asarray(ops.displacement_operator(d, -al), complex)
            Sq = np.asarray(ops.squeezing_operator(d, ze), complex)
            P = np.asarray(ops.phase_operator(d, th), complex)
            _flush("C12", col, _mk_replay("C12", "cv", cutoff=d, alpha=[al.real, al.imag], zeta=[ze.real, ze.imag], theta=th))
            ok = (np.allclose(D @ D.conj().T, np.eye(d), atol=1e-8) and np.allclose(Dm, D.conj().T, atol=1e-8)
                  and np.allclose(Sq @ Sq.conj().T, np.eye(d), atol=1e-8) and np.allclose(P @ P.conj().T, np.eye(d), atol=1e-9))
            col.add([_V("C12", ok, "identity-broken", f"cutoff {d}: D/S/R not unitary or D(a)^dag != D(-a)", ("cv", "unitary", min(d, 12)), fn="cv")],
                    _mk_replay("C12", "cv", cutoff=d, alpha=[al.real, al.imag], zeta=[ze.real, ze.imag], theta=th))
        # coherent state / squeezed vacuum at a generous cutoff
        for _ in range(3):
            al = complex(rng.uniform(0.05, 1.5) * np.exp(1j * rng.uniform(0, 2 * math.pi)))
            ze = complex(rng.uniform(0.05, 0.6) * np.exp(1j * rng.uniform(0, 2 * math.pi)))
            dd = 40
            D = np.asarray(ops.displacement_operator(dd, al), complex)
            Sq = np.asarray(ops.squeezing_operator(dd, ze), complex)
            _flush("C12", col, _mk_replay("C12", "cv", cutoff=dd, alpha=[al.real, al.imag], zeta=[ze.real, ze.imag]))
            ok1 = np.allclose(D[:12, 0], refops.coherent_amplitudes(al, 12), atol=1e-8)
            ok2 = np.allclose(Sq[:12, 0], refops.squeezed_vacuum_amplitudes(ze, 12), atol=1e-8)
            col.add([_V("C12", ok1, "closed-form", f"D({al:.4g})|0> is not the Poissonian coherent state", ("cv", "coherent", contracts._phase_cls(al)), fn="displacement_operator"),
                     _V("C12", ok2, "closed-form", f"S({ze:.4g})|0> is not the even-number squeezed vacuum", ("cv", "sqzvac", contracts._phase_cls(ze)), fn="squeezing_operator")],
                    _mk_replay("C12", "cv", cutoff=dd, alpha=[al.real, al.imag], zeta=[ze.real, ze.imag]))
        # ---- through the Operation interface, at the dimension of the target
        specs = []
        for t in ("I", "X", "Y", "Z", "H", "S", "T", "SX"):
            specs.append(({"fam": "pol", "type": t}, [2]))
        for t in ("RX", "RY", "RZ"):
            specs.append(({"fam": "pol", "type": t, "theta": _angle(rng)}, [2]))
        specs.append(({"fam": "pol", "type": "U3", "phi": float(rng.uniform(-7, 9)), "theta": float(rng.uniform(-7, 9)),
                       "omega": float(rng.uniform(-7, 9))}, [2]))
        for t in ("Creation", "Annihilation", "Identity"):
            specs.append(({"fam": "fock", "type": t}, [int(rng.integers(1, maxcut))]))
        specs.append(({"fam": "fock", "type": "PhaseShift", "phi": float(rng.uniform(-7, 9))}, [int(rng.integers(1, maxcut))]))
        al = _axis(complex(rng.uniform(0.05, 1.5) * np.exp(1j * _phase(rng))))
        specs.append(({"fam": "fock", "type": "Displace", "alpha": [al.real, al.imag]}, [int(rng.integers(2, maxcut))]))
        specs.append(({"fam": "fock", "type": "Squeeze", "zeta": [al.real / 3, al.imag / 3]}, [int(rng.integers(2, maxcut))]))
        for t in ("CXPolarization", "CZPolarization", "SwapPolarization"):
            specs.append(({"fam": "comp", "type": t}, [2, 2]))
        specs.append(({"fam": "comp", "type": "CSwapPolarization"}, [2, 2, 2]))
        d1 = int(rng.integers(1, 7))
        specs.append(({"fam": "comp", "type": "NonPolarizingBeamSplitter", "eta": float(rng.uniform(-4, 4))}, [d1, d1]))
        for sp, dims in specs:
            op = opspec.build_operation(sp)
            op.dimensions = list(dims)
            try:
                got = np.asarray(op.operator, complex)
                want = opspec.ref_operator(sp, dims)
                ok, det = contracts._cmp(got, want, 1e-8)
            except Exception as e:  # noqa: BLE001
                ok, det = False, f"{type(e).__name__}: {e}"
            _flush("C12", col, _mk_replay("C12", "operation", spec=sp, dims=dims))
            col.add([_V("C12", ok, "operation-operator", f"{sp['fam']}.{sp['type']} dims={dims}: {det}",
                        ("Operation.operator", sp["fam"] + "." + sp["type"], min(dims[0], 12)), fn="Operation.operator", op=sp["fam"] + "." + sp["type"])],
                    _mk_replay("C12", "operation", spec=sp, dims=dims))
        # ---- many Operation objects alive at once: all are constructed first (same types, different parameters),
        #      then asked for their operators in shuffled order - an object must answer with its own parameters
        pool = []
        for sp, dims in specs:
            pool.append((sp, dims))
            sp2 = dict(sp)
            for k in ("theta", "phi", "omega", "eta"):
                if k in sp2:
                    sp2[k] = float(rng.uniform(-7, 9))
            for k in ("alpha", "zeta"):
                if k in sp2:
                    z = complex(rng.uniform(0.05, 0.6) * np.exp(1j * rng.uniform(0, 2 * math.pi)))
                    sp2[k] = [z.real, z.imag]
            if sp2 != sp:
                pool.append((sp2, dims))
        objs = [(sp, dims, opspec.build_operation(sp)) for sp, dims in pool]
        for j in rng.permutation(len(objs)):
            sp, dims, op = objs[int(j)]
            try:
                op.dimensions = list(dims)
                got = np.asarray(op.operator, complex)
                ok, det = contracts._cmp(got, opspec.ref_operator(sp, dims), 1e-8)
            except Exception as e:  # noqa: BLE001
                ok, det = False, f"{type(e).__name__}: {e}"
            _flush("C12", col, _mk_replay("C12", "operation-pool", spec=sp, dims=dims))
            col.add([_V("C12", ok, "operation-operator-pool", f"{sp['fam']}.{sp['type']} dims={dims}, read after other operations of the same type had been constructed: {det}",
                        ("Operation.operator-pool", sp["fam"] + "." + sp["type"], min(dims[0], 12)), fn="Operation.operator", op=sp["fam"] + "." + sp["type"])],
                    _mk_replay("C12", "operation-pool", pool=pool))
        # ---- one Operation object asked for its operator at several dimension lists (also lists with equal product)
        reuse_specs = [
            ({"fam": "comp", "type": "NonPolarizingBeamSplitter", "eta": float(rng.uniform(-4, 4))}, [[2, 6], [3, 4], [4, 3], [6, 2], [3, 3]]),
            ({"fam": "comp", "type": "Expression", "state_types": ["F", "F"],
              "expr": ["expm", ["s_mult", {"num": [0.0, 0.7]}, ["add", ["kron", "n0", "i1"], ["kron", "n0", "n1"]]]],
              "context": {"n0": {"f": "number", "i": 0}, "n1": {"f": "number", "i": 1}, "i1": {"f": "eye", "i": 1}}}, [[2, 3], [3, 2], [2, 2], [4, 1], [1, 4]]),
            ({"fam": "fock", "type": "Displace", "alpha": [0.3, -0.4]}, [[3], [5], [3], [8]]),
            ({"fam": "fock", "type": "PhaseShift", "phi": float(rng.uniform(-7, 9))}, [[2], [6], [2]]),
        ]
        for sp, dimlists in reuse_specs:
            op = opspec.build_operation(sp)
            for dims in dimlists:
                try:
                    op.dimensions = list(dims)
                    got = np.asarray(op.operator, complex)
                    ok, det = contracts._cmp(got, opspec.ref_operator(sp, dims), 2e-6 if sp["type"] == "Expression" else 1e-7)
                except Exception as e:  # noqa: BLE001
                    ok, det = False, f"{type(e).__name__}: {e}"
                _flush("C12", col, _mk_replay("C12", "operation-reused", spec=sp, dims=dims))
                col.add([_V("C12", ok, "operation-operator-reused", f"{sp['fam']}.{sp['type']}: the same Operation object asked at dims={dims} (after other dimension lists): {det}",
                            ("Operation.operator-reused", sp["fam"] + "." + sp["type"], tuple(dims)), fn="Operation.operator", op=sp["fam"] + "." + sp["type"])],
                        _mk_replay("C12", "operation-reused", spec=sp, dimlists=dimlists))
        col.programs += 1
        if not thorough and rounds >= 6:
            break
    col.extra["contract_evaluations"] = dict(contracts.COUNT)
    col.samples.append({"sweep": "angles in [-4pi,6pi], complex alpha/zeta of any phase, cutoffs 1..%d" % maxcut, "rounds": rounds})


# =========================================================================== C16


def _rand_matrix(rng, d, kind):
    import jax.numpy as jnp
    m = rng.standard_normal((d, d)) + 1j * rng.standard_normal((d, d))
    m = m / 2
    x = rng.random()
    if x < 0.15:
        m = np.triu(m, 1)  # nilpotent (ladder-operator like): not diagonalisable
    elif x < 0.22:
        m = np.eye(d) * complex(rng.uniform(-1, 1), rng.uniform(-1, 1)) + np.diag(np.ones(max(d - 1, 0)), 1)  # Jordan block
    if kind == "np":
        return np.array(m)
    return jnp.array(m)


def _count_names(e):
    if isinstance(e, tuple):
        return sum(_count_names(x) for x in e[1:])
    return 1 if isinstance(e, str) else 0


def gen_tree(rng, depth, d, names, scalar_ok=True, allow_expm=True):
    """random well-formed expression returning a d x d matrix (or scalar if allowed and chosen)"""
    x = rng.random()
    if depth <= 0 or x < 0.25:
        y = rng.random()
        if y < 0.3:
            return _rand_matrix(rng, d, "np")
        if y < 0.6:
            return _rand_matrix(rng, d, "jnp")
        return str(rng.choice(names))
    cmds = ["add", "sub", "s_mult", "m_mult", "expm", "div", "add", "m_mult", "s_mult"]
    if not allow_expm:
        cmds = [c for c in cmds if c != "expm"]
    cmd = str(rng.choice(cmds))
    if cmd == "add":
        n = int(rng.integers(2, 5))
        return ("add", *[gen_tree(rng, depth - 1, d, names, allow_expm=allow_expm) for _ in range(n)])
    if cmd == "sub":
        return ("sub", gen_tree(rng, depth - 1, d, names, allow_expm=allow_expm), gen_tree(rng, depth - 1, d, names, allow_expm=allow_expm))
    if cmd == "s_mult":
        n = int(rng.integers(1, 4))
        sc = []
        for _ in range(n):
            z = rng.random()
            sc.append(float(rng.uniform(-2, 2)) if z < 0.4 else complex(rng.uniform(-1, 1), rng.uniform(-1, 1)) if z < 0.8 else int(rng.integers(1, 4)))
        if rng.random() < 0.08:
            # scalars on BOTH sides of the matrix whose product among themselves underflows to zero, while the product
            # taken in argument order stays representable: ('s_mult', 1e-200, (1e150 * M), 1e-200) * 1e250 = M
            c1 = float(rng.uniform(0.5, 2))
            inner = ("s_mult", 1e-200 * c1, ("s_mult", 1e150, gen_tree(rng, depth - 1, d, names, allow_expm=allow_expm)), 1e-200)
            return ("s_mult", inner, 1e250)
        if rng.random() < 0.15:
            # exact Python integers whose product leaves the 64-bit range while the overall coefficient is ordinary
            # (scalars are numbers, not arrays: 10**11 * 10**12 * 1e-23 is 1.0)
            a_, b_ = int(rng.integers(10, 13)), int(rng.integers(10, 13))
            sc = [10 ** a_, 10 ** b_, float(rng.uniform(0.5, 2)) * 10.0 ** (-(a_ + b_))]
        args = sc + [gen_tree(rng, depth - 1, d, names, allow_expm=allow_expm)]
        if rng.random() < 0.4:
            # matrix first: exposes in-place scaling of a caller-owned leaf
            args = [args[-1]] + sc
        return ("s_mult", *args)
    if cmd == "m_mult":
        n = int(rng.integers(2, 5))
        return ("m_mult", *[gen_tree(rng, depth - 1, d, names, allow_expm=allow_expm) for _ in range(n)])
    if cmd == "expm":
        # the argument stays shallow and free of further exponentials: jax's expm returns NaN once the norm of its
        # argument needs more than 16 squarings, which nested exponentials / long products reach quickly
        return ("expm", ("s_mult", 0.3, gen_tree(rng, min(depth - 1, 1), d, names, allow_expm=False)))
    if cmd == "div":
        den = float(rng.uniform(0.5, 3)) if rng.random() < 0.5 else np.array(rng.uniform(0.5, 2, size=(d, d)))
        return ("div", gen_tree(rng, depth - 1, d, names, allow_expm=allow_expm), den)
    raise AssertionError


def c16_driver(a, col):
    import jax.numpy as jnp
    import photon_weave.extra.expression_interpreter as ei
    from photon_weave.extra import interpreter as pkg_interp  # noqa: F401

    contracts.install(("interpreter",))
    rng = np.random.default_rng([a.seed, 16, a.shard])
    t0 = time.time()
    n = 0
    depthmax = 4 if a.tier == "thorough" else 3
    while time.time() - t0 < a.budget:
        n += 1
        d = int(rng.integers(1, 4))
        calls = []
        mats = {nm: _rand_matrix(rng, d, "jnp") for nm in ("A", "B", "C")}

        def mk(nm):
            def f(dims):
                calls.append((nm, dims))
                return mats[nm]
            return f

        ctx = {nm: mk(nm) for nm in mats}
        ctx_before = {nm: np.array(m).tobytes() for nm, m in mats.items()}
        dims = [int(x) for x in rng.integers(1, 6, size=int(rng.integers(1, 4)))]
        kron = rng.random() < 0.25
        if kron:
            k = int(rng.integers(2, 4))
            expr = ("kron", *[gen_tree(rng, 1, d, list(mats)) for _ in range(k)])
            if rng.random() < 0.5:
                expr = ("m_mult", expr, ("kron", *[gen_tree(rng, 0, d, list(mats)) for _ in range(k)]))
        else:
            expr = gen_tree(rng, int(rng.integers(1, depthmax + 1)), d, list(mats))
        before = contracts.copy_expr(expr)

        def replay(expr=before, dims=dims, d=d):
            return {"prop": "C16", "kind": "tree", "expr": contracts._brief(expr, 2000), "dims": dims, "d": d,
                    "seed": a.seed, "shard": a.shard, "case": n}

        exc = None
        try:
            ei.interpreter(expr, ctx, dims)
        except Exception as e:  # noqa: BLE001
            exc = e
        nv = _flush("C16", col, replay)
        head = expr[0] if isinstance(expr, tuple) else "leaf"
        if exc is not None:
            col.add([_V("C16", False, "spurious-exception", f"{type(exc).__name__}: {exc} expr={contracts._brief(before)}",
                        ("interpreter", "raise", str(head)), head=str(head), exc=type(exc).__name__)], replay)
        # context called with exactly the dimension list, context arrays untouched
        bad = [c for c in calls if c[1] != dims or c[1] is None]
        col.add([_V("C16", not bad, "context-dims", f"context called with {bad[:2]} instead of {dims}", ("interpreter", "context-dims"), head=str(head))], replay)
        # every occurrence of a name is resolved through a call of the context entry
        occ = _count_names(before)
        if exc is None and occ:
            col.add([_V("C16", len(calls) >= occ, "context-not-called", f"{occ} name leaves but the context was called {len(calls)} times", ("interpreter", "context-calls"), head=str(head))], replay)
        # the same context object, whose entries now return other values, must give the new value
        if exc is None and occ and n % 3 == 0:
            for nm in mats:
                mats[nm] = _rand_matrix(rng, d, "jnp")
            try:
                ei.interpreter(expr, ctx, dims)
            except Exception:  # noqa: BLE001
                pass
            for v in contracts.drain("C16"):
                if v["status"] == "violated":
                    v["mode"] = "stale-context-value" if v["mode"] == "wrong-value" else v["mode"]
                v["cell"] = ("interpreter", "context-changed", str(head))
                col.add([v], replay)
            ctx_before = {nm: np.array(m).tobytes() for nm, m in mats.items()}
        changed = [nm for nm, m in mats.items() if np.array(m).tobytes() != ctx_before[nm]]
        col.add([_V("C16", not changed, "context-mutated", f"context results {changed} modified", ("interpreter", "context-bytes"), head=str(head))], replay)
        # malformed heads must raise
        if n % 5 == 0:
            cmds = ("add", "sub", "s_mult", "m_mult", "kron", "expm", "div")
            c = str(rng.choice(cmds))
            k = int(rng.integers(1, len(c)))
            frags = [c[:k], c[k:], c[:-1], c[1:], c.upper(), c.capitalize(), c + " ", " " + c, c + c[-1]]
            frags = [f for f in frags if f not in cmds]
            for bad_head in ["foo", "Add", "", 1, "kronn", None, "mult"] + [str(f) for f in rng.choice(frags, size=min(3, len(frags)), replace=False)]:
                e2 = (bad_head, _rand_matrix(rng, d, "np"), _rand_matrix(rng, d, "np"))
                nested = ("add", _rand_matrix(rng, d, "np"), e2) if rng.random() < 0.5 else e2
                raised = False
                val = None
                try:
                    val = ei.interpreter(nested, ctx, dims)
                except Exception:  # noqa: BLE001
                    raised = True
                contracts.drain("C16")
                col.add([_V("C16", raised, "unknown-command-accepted", f"head {bad_head!r} returned {type(val).__name__}",
                            ("interpreter", "malformed", repr(bad_head)), head=repr(bad_head))],
                        lambda: {"prop": "C16", "kind": "malformed", "head": repr(bad_head)})
        # names are resolved through the context called with the *current* dimension list: one expression-defined
        # Operation asked for its operator at a sequence of dimension lists (permutations, equal products)
        if n % 7 == 0:
            from pwv import opspec
            sp = {"fam": "comp", "type": "Expression", "state_types": ["F", "F"],
                  "expr": ["expm", ["s_mult", {"num": [0.0, float(rng.uniform(0.2, 1.5))]}, ["add", ["kron", "n0", "i1"], ["kron", "a0", "n1"], ["kron", "i0", "n1"]]]],
                  "context": {"n0": {"f": "number", "i": 0}, "n1": {"f": "number", "i": 1}, "i0": {"f": "eye", "i": 0}, "i1": {"f": "eye", "i": 1},
                              "a0": {"f": "create", "i": 0}}}
            base = [int(x) for x in rng.integers(1, 5, size=2)]
            seq = [base, base[::-1], [base[0] * base[1], 1], [1, base[0] * base[1]], base, [base[0] + 1, base[1]]]
            try:
                op = opspec.build_operation(sp)
            except Exception:  # noqa: BLE001
                op = None
            for dl in seq:
                if op is None:
                    break
                try:
                    op.dimensions = list(dl)
                    got = np.asarray(op.operator, complex)
                    ok, det = contracts._cmp(got, opspec.ref_operator(sp, dl), 2e-6)
                except Exception as e:  # noqa: BLE001
                    ok, det = False, f"{type(e).__name__}: {e}"
                contracts.drain("C16")
                col.add([_V("C16", ok, "operation-stale-dimension-list", f"expression operation asked at dims={dl} after {seq[:seq.index(dl)]}: {det}",
                            ("operation", "dimension-list", "permuted" if sorted(dl) == sorted(base) and dl != base else "other"), head="expm")],
                        lambda: {"prop": "C16", "kind": "operation-dims", "spec": sp, "seq": seq})
        col.programs += 1
    col.extra["contract_evaluations"] = dict(contracts.COUNT)
    col.samples.append({"example_tree": contracts._brief(before, 400), "dims": dims})


# =========================================================================== C19


def _phase(rng):
    """a phase angle: on an axis (exactly real positive / negative, exactly imaginary) a third of the time - inputs of
    measure zero under a uniform draw, and exactly where special-cased code paths live"""
    if rng.random() < 0.35:
        return float(rng.choice([0.0, math.pi, math.pi / 2, -math.pi / 2]))
    return float(rng.uniform(0, 2 * math.pi))


def _axis(z):
    """snap rounding dust of an axis-aligned complex number to exact zeros (cos(pi/2) is 6e-17, not 0)"""
    return complex(0.0 if abs(z.real) < 1e-12 * abs(z) else z.real, 0.0 if abs(z.imag) < 1e-12 * abs(z) else z.imag)


def _angle(rng):
    if rng.random() < 0.2:
        return float(rng.choice([0.0, math.pi, -math.pi, 2 * math.pi, math.pi / 2, -math.pi / 2, 4 * math.pi]))
    return float(rng.uniform(-7, 9))


def c19_driver(a, col):
    from photon_weave.state.envelope import Envelope, TemporalProfile

    contracts.install(("overlap",))
    rng = np.random.default_rng([a.seed, 19, a.shard])
    t0 = time.time()
    n = 0
    maxn = 1200 if a.tier == "thorough" else 250
    default = Envelope()
    while time.time() - t0 < a.budget and n < maxn:
        n += 1
        x = rng.random()
        if x < 0.1:
            s1 = s2 = 42.45e-15
        elif x < 0.5:
            s1 = s2 = float(10 ** rng.uniform(-15, 1))
        else:
            s1 = float(10 ** rng.uniform(-15, 1))
            s2 = s1 * float(10 ** rng.uniform(-1, 1))
        w = max(s1, s2)
        mu1 = float(rng.choice([0.0, rng.uniform(-3, 3) * w]))
        mu2 = float(rng.choice([0.0, rng.uniform(-3, 3) * w]))
        if x >= 0.1 and rng.random() < 0.2:
            # pulses far from the time origin (a common offset of 1e3 .. 1e7 widths)
            T = float(rng.choice([-1, 1]) * 10 ** rng.uniform(3, 7) * w)
            mu1 += T
            mu2 += T
        delay = float(rng.choice([0.0, rng.uniform(-8, 8) * w, rng.uniform(-1, 1) * w]))
        def _profile(mu, sg):
            # a centre offset of zero is the documented default: leave it out half of the time
            if mu == 0.0 and rng.random() < 0.5:
                return TemporalProfile.Gaussian.with_params(sigma=sg)
            return TemporalProfile.Gaussian.with_params(mu=mu, sigma=sg)
        e1 = Envelope(temporal_profile=_profile(mu1, s1)) if x >= 0.1 else Envelope()
        e2 = Envelope(temporal_profile=_profile(mu2, s2)) if x >= 0.1 else Envelope()
        if x < 0.1:
            mu1 = mu2 = 0.0
        # the overlap of the temporal profiles does not involve the carriers: wavelengths (any scale relative to the
        # pulse width) and the refractive index must not matter
        wl1 = wl2 = 1550.0
        nidx = 1.0
        if rng.random() < 0.5:
            wl1 = float(3e8 * min(s1, s2) * 10 ** rng.uniform(-3, 3))
            wl2 = wl1 * float(rng.choice([1.0, 10 ** rng.uniform(-1.5, 1.5), 780.0 / 1550.0]))
            e1.wavelength, e2.wavelength = wl1, wl2
            nidx = float(rng.choice([1.0, 1.45, 2.2]))

        def replay(s1=s1, s2=s2, mu1=mu1, mu2=mu2, delay=delay, wl1=wl1, wl2=wl2, nidx=nidx):
            return {"prop": "C19", "kind": "overlap", "sigma1": s1, "sigma2": s2, "mu1": mu1, "mu2": mu2, "delay": delay,
                    "wavelength1": wl1, "wavelength2": wl2, "n": nidx}

        try:
            if nidx != 1.0:
                r12 = e1.overlap_integral(e2, delay, n=nidx)
                r21 = e2.overlap_integral(e1, -delay, n=nidx)
            else:
                r12 = e1.overlap_integral(e2, delay)
                r21 = e2.overlap_integral(e1, -delay)
            exc = None
            if x >= 0.1 and rng.random() < 0.35:
                # history on the SAME two envelope objects: the profile of one of them is replaced (or its width is
                # edited) and the overlap is asked for again with the same delay; then the first question once more.
                # The contract judges every answer against the profiles the envelopes hold at that moment.
                who = e1 if rng.random() < 0.5 else e2
                old_profile = who.temporal_profile
                old_params = dict(old_profile.params)
                f = float(rng.choice([3.0, 1 / 3.0, 1.7]))
                if rng.random() < 0.6:
                    who.temporal_profile = TemporalProfile.Gaussian.with_params(mu=old_params["mu"], sigma=old_params["sigma"] * f)
                else:
                    who.temporal_profile.params["sigma"] = old_params["sigma"] * f
                kw = {"n": nidx} if nidx != 1.0 else {}
                e1.overlap_integral(e2, delay, **kw)
                e2.overlap_integral(e1, -delay, **kw)
                who.temporal_profile = old_profile
                who.temporal_profile.params["sigma"] = old_params["sigma"]
                e1.overlap_integral(e2, delay, **kw)
        except Exception as e:  # noqa: BLE001
            exc = e
        _flush("C19", col, replay)
        dec = int(np.floor(np.log10(min(s1, s2))))
        if exc is not None:
            col.add([_V("C19", False, "spurious-exception", f"{type(exc).__name__}: {exc}", ("overlap", "raise", dec), decade=dec)], replay)
            continue
        # the answer against the parameters the CALLER asked for (the contract reads them back from the profile
        # objects, which is blind to a profile that was built with other values than the ones passed)
        if x >= 0.1:
            dl = delay + mu2 - mu1
            want = math.sqrt(2 * s1 * s2 / (s1 * s1 + s2 * s2)) * math.exp(-dl * dl / (2 * (s1 * s1 + s2 * s2)))
            okp = abs(float(np.real(r12)) - want) <= 1e-6
            col.add([_V("C19", okp, "wrong-overlap-for-requested-profile", f"asked for mu=({mu1:.3g},{mu2:.3g}) sigma=({s1:.3g},{s2:.3g}) delay={delay:.3g}: got {r12}, closed form {want:.9g}; profiles hold {e1.temporal_profile.params} / {e2.temporal_profile.params}",
                        ("overlap-requested", dec), decade=dec)], replay)
        sym = abs(float(np.real(r12)) - float(np.real(r21))) <= 1e-6
        col.add([_V("C19", sym, "asymmetric", f"O(1,2,d)={r12} but O(2,1,-d)={r21}", ("overlap-symmetry", dec), decade=dec)], replay)
        col.programs += 1
    col.extra["contract_evaluations"] = dict(contracts.COUNT)
    col.samples.append({"sigma_range": "1e-15 .. 10 s (log-uniform) incl. the 42.45 fs default", "cases": n})
