"""One shard of a program-based check: generates programs, runs them under monitors, judges.

usage: python -m pwv.worker --prop C01 --tier quick --seed 0 --shard 3 --nshards 16 --budget 60 --out f.json
"""
import argparse
import json
import os
import sys
import time

import numpy as np

from pwv import env as _env

_env.setup()


def sig_key(v):
    s = v["sig"]
    return json.dumps([v["prop"], v["mode"], sorted((k, str(x)) for k, x in s.items())])


class Collector:
    def __init__(self, prop):
        self.prop = prop
        self.evals = 0
        self.cells = {}
        self.incon = {}
        self.viol = {}
        self.samples = []
        self.handlers = {}
        self.kinds = {}
        self.programs = 0
        self.steps = 0
        self.extra = {}

    def add(self, verdicts, replay_fn):
        for v in verdicts:
            st = v["status"]
            if st == "inconclusive":
                self.incon[v["mode"]] = self.incon.get(v["mode"], 0) + 1
                continue
            self.evals += 1
            c = json.dumps(v["cell"]) if v["cell"] is not None else "null"
            self.cells[c] = self.cells.get(c, 0) + 1
            if st == "violated":
                k = sig_key(v)
                e = self.viol.get(k)
                if e is None:
                    self.viol[k] = {"prop": v["prop"], "mode": v["mode"], "sig": v["sig"], "count": 1,
                                    "detail": v["detail"], "replay": replay_fn()}
                else:
                    e["count"] += 1

    def dump(self):
        return {
            "prop": self.prop, "evaluations": self.evals, "cells": self.cells, "inconclusive": self.incon,
            "violations": list(self.viol.values()), "samples": self.samples, "handlers": self.handlers,
            "kinds": self.kinds, "programs": self.programs, "steps": self.steps, "extra": self.extra,
        }


def run_programs(prop, conf, tier, seed, shard, nshards, budget, col, maxprog=None):
    from pwv.run import Runner
    from pwv.gen import Gen
    from pwv import instrument
    from pwv.world import Malformed, blocks, TooBig

    pidx = int(prop[1:])
    t0 = time.time()
    prog = 0
    if conf.get("oracles_extra") == "continuation" and not conf.get("_cont_added"):
        # C05: "every continuation of the program after the measurement": the operations, channels and structural
        # calls that follow a measurement are judged too (the survivors must remain fully usable)
        from pwv.drivers_misc import continuation_oracle
        conf = dict(conf)
        conf["oracles"] = list(conf["oracles"]) + [continuation_oracle(prop, lambda rec: rec.step["k"] == "measure" and not rec.step.get("dead_probe"), 3)]
        conf["_cont_added"] = True
    nsteps_rng = conf.get("steps", (4, 12) if tier == "quick" else (6, 20))
    while time.time() - t0 < budget and (maxprog is None or prog < maxprog):
        rng = np.random.default_rng([seed, pidx, shard, prog])
        srng = np.random.default_rng([seed, pidx, shard, prog, 7])
        prog += 1
        gen = Gen(rng, conf["profile"], tier, conf.get("opts"))
        decl = gen.decl()
        contraction = bool(rng.random() < 0.6)
        mode = conf.get("mode", "steer")
        if conf.get("free_mix") and rng.random() < conf["free_mix"]:
            mode = "free"  # keep the real sampler in the loop for a share of the programs
        runner = Runner(decl, steer_rng=srng, mode=mode, contraction=contraction,
                        seed=int(rng.integers(0, 2**31)))
        instrument.SAMPLER.all_events.clear()
        steps = []
        col.programs += 1
        n = int(rng.integers(nsteps_rng[0], nsteps_rng[1] + 1))

        def replay():
            return {"prop": prop, "decl": decl, "steps": list(steps), "contraction": contraction,
                    "script": [e.get("idx") for e in instrument.SAMPLER.all_events],
                    "seed": seed, "shard": shard, "prog": prog - 1, "mode": mode}

        for i in range(n):
            try:
                st = gen.next_step(runner)
            except Exception as e:  # noqa: BLE001
                col.incon["harness-gen-error"] = col.incon.get("harness-gen-error", 0) + 1
                col.extra.setdefault("harness_errors", []).append(f"gen: {type(e).__name__}: {e}"[:200])
                break
            if st is None:
                break
            steps.append(st)
            rec = runner.step(st)
            if rec.exc_type == "StepTimeout":
                col.incon["step-timeout"] = col.incon.get("step-timeout", 0) + 1
                col.extra.setdefault("timeouts", []).append({"step": {k: v for k, v in st.items() if k not in ("ops",)}, "frame": rec.exc_frame})
                break
            col.steps += 1
            col.kinds[st["k"]] = col.kinds.get(st["k"], 0) + 1
            for h in rec.handlers:
                col.handlers[h] = col.handlers.get(h, 0) + 1
            for oracle in conf["oracles"]:
                try:
                    vs = oracle(rec)
                except Malformed as e:
                    vs = [{"prop": prop, "status": "inconclusive", "mode": "oracle-malformed", "detail": str(e), "cell": None, "sig": {}}]
                except TooBig as e:
                    vs = [{"prop": prop, "status": "inconclusive", "mode": "too-big", "detail": str(e), "cell": None, "sig": {}}]
                except Exception as e:  # noqa: BLE001
                    import traceback as _tb
                    col.extra.setdefault("harness_errors", []).append(_tb.format_exc()[-600:])
                    vs = [{"prop": prop, "status": "inconclusive", "mode": "harness-oracle-error", "detail": str(e), "cell": None, "sig": {}}]
                col.add(vs, replay)
            post_hook = conf.get("post_step")
            if post_hook:
                extra = post_hook(runner, rec, gen, rng)
                for st2 in extra or []:
                    steps.append(st2)
                    rec2 = runner.step(st2)
                    col.steps += 1
                    for oracle in conf["oracles"]:
                        try:
                            col.add(oracle(rec2), replay)
                        except (Malformed, TooBig):
                            col.incon["oracle-malformed"] = col.incon.get("oracle-malformed", 0) + 1
            try:
                blocks(rec.post)
            except Malformed:
                break
            if time.time() - t0 > budget:
                break
        if len(col.samples) < 3 and steps:
            col.samples.append({"decl": decl, "steps": steps[:6], "contraction": contraction})


def main():
    ap = argparse.ArgumentParser()
    ap.add_argument("--prop", required=True)
    ap.add_argument("--tier", default="quick")
    ap.add_argument("--seed", type=int, default=0)
    ap.add_argument("--shard", type=int, default=0)
    ap.add_argument("--nshards", type=int, default=16)
    ap.add_argument("--budget", type=float, default=60)
    ap.add_argument("--maxprog", type=int, default=None)
    ap.add_argument("--out", required=True)
    a = ap.parse_args()
    from pwv import props

    conf = props.PROPS[a.prop]
    col = Collector(a.prop)
    t0 = time.time()
    err = None
    try:
        errs = props.selfcheck()
        if errs:
            raise RuntimeError(f"reference self-check failed: {errs}")
        if "driver" in conf:
            conf["driver"](a, col)
        else:
            run_programs(a.prop, conf, a.tier, a.seed, a.shard, a.nshards, a.budget, col, a.maxprog)
    except Exception as e:  # noqa: BLE001
        import traceback
        err = traceback.format_exc()
    d = col.dump()
    d["wall_s"] = time.time() - t0
    d["error"] = err
    d["shard"] = a.shard
    with open(a.out, "w") as f:
        json.dump(d, f, default=str)
    sys.exit(0 if err is None else 3)


if __name__ == "__main__":
    main()
