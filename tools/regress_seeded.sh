#!/bin/bash
# re-runs the quick check of every kept seeded defect against the current checks on scratch worktrees (parallel-safe);
# usage: tools/regress_seeded.sh [parallel=3] [budget=40] [ids...]   prints one line per defect
cd "$(dirname "$0")/.."
P=${1:-3}; B=${2:-40}; shift 2 2>/dev/null
ids="$@"
[ -z "$ids" ] && ids=$(ls -d seeded/C*-*/ | xargs -n1 basename)
one() {
  id=$1; d=$(pwd)/seeded/$id
  extra=""
  case $id in
    C01-3) extra="--props C01,C03";; C02-6) extra="--props C02,C13";; C01-7) extra="--props C01,C10,C12";;
    C15-10) extra="--props C15,C10";; C04-9|C04-10) extra="--props C04";; C04-6) extra="--props C04,C02";;
  esac
  python3 tools/mutant.py detect-scratch $d $extra --budget $B 2>&1 | grep "^{" | cut -c1-200
}
export -f one; export B
echo $ids | tr ' ' '\n' | xargs -P $P -I{} bash -c 'one {}'
