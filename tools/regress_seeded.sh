#!/bin/bash
# re-runs the quick check of every kept seeded defect against the current checks; prints one line per defect
cd "$(dirname "$0")/.."
for d in seeded/C*-*/; do
  d=${d%/}
  prop=$(python3 -c "import json;print(json.load(open('$d/meta.json'))['property'])")
  extra=""
  [ "$(basename $d)" = "C01-3" ] && extra="--props C01,C03"
  python3 tools/mutant.py detect $(pwd)/$d $extra 2>&1 | grep "^{" | cut -c1-220
done
