#!/usr/bin/env python3
"""Run the repository's own test-suite with hooks OFF and compare with BASELINE.json's stable_pass list.
usage: tools/suite.py [-n WORKERS]   exit 0 iff all 180 baseline tests pass."""
import json, os, subprocess, sys, tempfile, xml.etree.ElementTree as ET
n = "12"
if "-n" in sys.argv:
    n = sys.argv[sys.argv.index("-n") + 1]
base = json.load(open("/root/.vp/BASELINE.json"))
want = set(base["stable_pass"])
x = tempfile.mktemp(suffix=".xml")
env = {k: v for k, v in os.environ.items() if k != "PHOTON_WEAVE_VERIF" and k != "PYTHONPATH"}
cmd = ["/venv/bin/python", "-m", "pytest", "-q", "-p", "no:cacheprovider", "--timeout=900", "--continue-on-collection-errors", f"--junitxml={x}"]
if n != "0":
    cmd += ["-n", n]
r = subprocess.run(cmd, cwd="/repo", env=env, capture_output=True, text=True)
passed = set()
for tc in ET.parse(x).getroot().iter("testcase"):
    if not any(c.tag in ("failure", "error", "skipped") for c in tc):
        passed.add(f"{tc.get('classname')}::{tc.get('name')}")
os.remove(x)
missing = sorted(want - passed)
if missing and n != "0":
    print(f"{len(missing)} baseline tests missing under xdist (order-dependent tests exist); re-running single-process")
    os.execv(sys.executable, [sys.executable, __file__, "-n", "0"])
print(r.stdout.strip().splitlines()[-1] if r.stdout.strip() else r.stderr[-300:])
print(f"baseline pass: {len(want & passed)}/{len(want)}; newly passing beyond baseline: {len(passed - want)}")
for m in missing:
    print("  MISSING", m)
sys.exit(1 if missing else 0)
