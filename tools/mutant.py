#!/usr/bin/env python3
"""Evaluate seeded defects.

  tools/mutant.py confirm <dir>...   in a scratch worktree: patch applies, demo fails with / passes without the
                                     change, baseline suite still passes (writes <dir>/confirm.json)
  tools/mutant.py detect <dir>... [--props C01,C05] [--tier quick] [--budget N]
                                     applies patch.diff to /repo, runs ./check <prop>, reverts (writes <dir>/detect.json)
"""
import json
import os
import re
import shutil
import subprocess
import sys
import time

REPO = "/repo"
VERIF = os.path.dirname(os.path.dirname(os.path.abspath(__file__)))


def sh(cmd, cwd=None, env=None, timeout=3600):
    r = subprocess.run(cmd, shell=isinstance(cmd, str), cwd=cwd, env=env, capture_output=True, text=True, timeout=timeout)
    return r.returncode, r.stdout + r.stderr


def clean_repo():
    rc, out = sh("git status --porcelain --untracked-files=no", cwd=REPO)
    return out.strip() == ""


def confirm(d):
    name = os.path.basename(d.rstrip("/"))
    wt = f"/tmp/pwv-mut-{name}"
    sh(f"git -C {REPO} worktree remove --force {wt}")
    shutil.rmtree(wt, ignore_errors=True)
    rc, out = sh(f"git -C {REPO} worktree add --detach {wt} HEAD")
    res = {"name": name, "head": sh("git rev-parse --short HEAD", cwd=REPO)[1].strip()}
    try:
        env = dict(os.environ)
        env.pop("PHOTON_WEAVE_VERIF", None)
        env["PYTHONPATH"] = wt
        env["JAX_PLATFORMS"] = "cpu"
        rc0, out0 = sh(["/venv/bin/python", os.path.join(d, "demo.py")], cwd=wt, env=env, timeout=900)
        res["demo_clean_rc"] = rc0
        rc, out = sh(f"git apply {d}/patch.diff", cwd=wt)
        res["applies"] = rc == 0
        if rc != 0:
            rc, out = sh(f"git apply --3way {d}/patch.diff", cwd=wt)
            res["applies_3way"] = rc == 0
            if rc != 0:
                res["apply_error"] = out[-400:]
                return res
            sh("git diff > /dev/null", cwd=wt)
        rc1, out1 = sh(["/venv/bin/python", os.path.join(d, "demo.py")], cwd=wt, env=env, timeout=900)
        res["demo_mutant_rc"] = rc1
        res["demo_mutant_tail"] = out1[-300:]
        # baseline suite with the change (single process, baseline order)
        base = json.load(open("/root/.vp/BASELINE.json"))
        want = set(base["stable_pass"])
        x = f"/tmp/pwv-mut-{name}.xml"
        env2 = {k: v for k, v in env.items() if k != "PYTHONPATH"}
        rc, out = sh(["/venv/bin/python", "-m", "pytest", "-q", "-p", "no:cacheprovider", "--timeout=900", "--continue-on-collection-errors",
                      f"--junitxml={x}"], cwd=wt, env=env2, timeout=3000)
        import xml.etree.ElementTree as ET
        passed = set()
        for tc in ET.parse(x).getroot().iter("testcase"):
            if not any(c.tag in ("failure", "error", "skipped") for c in tc):
                passed.add(f"{tc.get('classname')}::{tc.get('name')}")
        os.remove(x)
        res["suite_missing"] = sorted(want - passed)
        res["suite_tail"] = out.strip().splitlines()[-1] if out.strip() else ""
        res["confirmed"] = bool(res.get("demo_clean_rc") == 0 and rc1 != 0 and not res["suite_missing"])
    finally:
        sh(f"git -C {REPO} worktree remove --force {wt}")
        shutil.rmtree(wt, ignore_errors=True)
    json.dump(res, open(os.path.join(d, "confirm.json"), "w"), indent=1)
    return res


def detect_scratch(d, props, tier, budget):
    """like detect, but on a scratch worktree (PWV_REPO) with evidence/replays redirected: safe to run in parallel"""
    name = os.path.basename(d.rstrip("/"))
    wt = f"/tmp/pwv-det-{name}"
    sh(f"git -C {REPO} worktree remove --force {wt}")
    shutil.rmtree(wt, ignore_errors=True)
    sh(f"git -C {REPO} worktree add --detach {wt} HEAD")
    res = {"name": name, "head": sh("git rev-parse --short HEAD", cwd=REPO)[1].strip(), "checks": {}, "scratch": True}
    try:
        rc, out = sh(f"git apply {d}/patch.diff", cwd=wt)
        if rc != 0:
            rc, out = sh(f"git apply --3way {d}/patch.diff", cwd=wt)
            if rc != 0:
                res["error"] = "patch does not apply: " + out[-300:]
                json.dump(res, open(os.path.join(d, "detect.json"), "w"), indent=1)
                return res
        env = dict(os.environ)
        env.update({"PWV_REPO": wt, "PWV_EVIDENCE_DIR": f"/tmp/pwv-det-ev-{name}", "PWV_OUT_DIR": f"/tmp/pwv-det-ev-{name}"})
        for p in props:
            t0 = time.time()
            cmd = f"./check {p} --tier {tier}" + (f" --budget {budget}" if budget else "")
            rc, out = sh(cmd, cwd=VERIF, env=env, timeout=7200)
            viol = [ln for ln in out.splitlines() if ln.startswith("VIOLATION")]
            res["checks"][p] = {"rc": rc, "violations": len(viol), "first": [v[:300] for v in viol[:3]], "wall": round(time.time() - t0),
                                "head": out.splitlines()[0][:200] if out else ""}
    finally:
        sh(f"git -C {REPO} worktree remove --force {wt}")
        shutil.rmtree(wt, ignore_errors=True)
        shutil.rmtree(f"/tmp/pwv-det-ev-{name}", ignore_errors=True)
    res["detected"] = any(c["rc"] == 1 for c in res["checks"].values())
    json.dump(res, open(os.path.join(d, "detect.json"), "w"), indent=1)
    return res


def detect(d, props, tier, budget):
    name = os.path.basename(d.rstrip("/"))
    if not clean_repo():
        print("refusing: /repo has uncommitted changes")
        sys.exit(2)
    res = {"name": name, "head": sh("git rev-parse --short HEAD", cwd=REPO)[1].strip(), "checks": {}}
    rc, out = sh(f"git apply {d}/patch.diff", cwd=REPO)
    if rc != 0:
        rc, out = sh(f"git apply --3way {d}/patch.diff", cwd=REPO)
        if rc != 0:
            sh("git reset -q --hard HEAD", cwd=REPO)
            res["error"] = "patch does not apply: " + out[-300:]
            json.dump(res, open(os.path.join(d, "detect.json"), "w"), indent=1)
            return res
        sh("git reset -q", cwd=REPO)
    try:
        for p in props:
            t0 = time.time()
            cmd = f"./check {p} --tier {tier}" + (f" --budget {budget}" if budget else "")
            rc, out = sh(cmd, cwd=VERIF, timeout=7200)
            viol = [ln for ln in out.splitlines() if ln.startswith("VIOLATION")]
            res["checks"][p] = {"rc": rc, "violations": len(viol), "first": [v[:300] for v in viol[:3]], "wall": round(time.time() - t0),
                                "head": out.splitlines()[0][:200] if out else ""}
    finally:
        sh("git reset -q --hard HEAD", cwd=REPO)
        sh("git clean -fdq photon_weave", cwd=REPO)
    res["detected"] = any(c["rc"] == 1 for c in res["checks"].values())
    json.dump(res, open(os.path.join(d, "detect.json"), "w"), indent=1)
    return res


def main():
    mode = sys.argv[1]
    args = sys.argv[2:]
    props = None
    tier = "quick"
    budget = None
    dirs = []
    i = 0
    while i < len(args):
        if args[i] == "--props":
            props = args[i + 1].split(",")
            i += 2
        elif args[i] == "--tier":
            tier = args[i + 1]
            i += 2
        elif args[i] == "--budget":
            budget = args[i + 1]
            i += 2
        else:
            dirs.append(args[i])
            i += 1
    for d in dirs:
        if mode == "confirm":
            r = confirm(d)
            print(json.dumps({k: r.get(k) for k in ("name", "applies", "demo_clean_rc", "demo_mutant_rc", "suite_missing", "confirmed", "apply_error")}))
        else:
            pp = props
            if pp is None:
                meta = json.load(open(os.path.join(d, "meta.json")))
                pp = [meta["property"]]
            r = (detect_scratch if mode == "detect-scratch" else detect)(d, pp, tier, budget)
            print(json.dumps({"name": r["name"], "detected": r.get("detected"), "error": r.get("error"),
                              "checks": {k: (v["rc"], v["violations"]) for k, v in r["checks"].items()}}))
            for k, v in r["checks"].items():
                for f in v["first"][:1]:
                    print("    ", f[:260])


if __name__ == "__main__":
    main()
