#!/usr/bin/env python3
"""Copies confirmed seeded defects from /tmp/mutout/<id> to /verif/seeded/<id>/ (patch.diff, demo.py, meta.json,
confirm.json, detect.json) and extends meta.json with what was run here."""
import json, os, shutil, sys, glob
V = os.path.dirname(os.path.dirname(os.path.abspath(__file__)))
src = sys.argv[1] if len(sys.argv) > 1 else "/tmp/mutout"
for d in sorted(glob.glob(os.path.join(src, "C*-*"))):
    if not os.path.isdir(d):
        continue
    name = os.path.basename(d)
    need = [os.path.join(d, f) for f in ("patch.diff", "demo.py", "meta.json", "confirm.json")]
    if not all(os.path.exists(f) for f in need):
        print("skip (incomplete)", name)
        continue
    con = json.load(open(os.path.join(d, "confirm.json")))
    if not con.get("confirmed"):
        print("skip (not confirmed)", name, {k: con.get(k) for k in ("applies", "demo_clean_rc", "demo_mutant_rc", "suite_missing")})
        continue
    dst = os.path.join(V, "seeded", name)
    os.makedirs(dst, exist_ok=True)
    for f in ("patch.diff", "demo.py", "confirm.json", "detect.json"):
        if os.path.exists(os.path.join(d, f)):
            shutil.copy(os.path.join(d, f), os.path.join(dst, f))
    meta = json.load(open(os.path.join(d, "meta.json")))
    meta["breaks_property"] = meta.get("property")
    meta["confirmed_here"] = {
        "repo_head": con.get("head"),
        "ran": ["tools/mutant.py confirm: scratch worktree under /tmp, `git apply patch.diff`, demo.py on clean tree (rc %s) and on changed tree (rc %s), "
                "baseline suite single-process with the change: %s, missing baseline tests: %s" % (con.get("demo_clean_rc"), con.get("demo_mutant_rc"), con.get("suite_tail"), con.get("suite_missing"))],
    }
    if os.path.exists(os.path.join(d, "detect.json")):
        det = json.load(open(os.path.join(d, "detect.json")))
        meta["detected_by"] = {k: {"exit": v["rc"], "violation_signatures": v["violations"], "first": v["first"][:1]} for k, v in det.get("checks", {}).items()}
    json.dump(meta, open(os.path.join(dst, "meta.json"), "w"), indent=1)
    print("kept", name)
