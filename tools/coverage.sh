#!/bin/bash
# Diagnostic (not a registered check): statement/branch coverage of photon_weave under the check workloads.
# usage: tools/coverage.sh [budget_seconds] [shards_per_property]   -> out/coverage/report.txt
# Unreached library code is where a workload cannot see a defect; the report is read by a human, nothing is gated on it.
cd "$(dirname "$0")/.."
B=${1:-90}; NS=${2:-2}
D=out/coverage; rm -rf $D; mkdir -p $D
export PHOTON_WEAVE_VERIF=1 PYTHONHASHSEED=0 JAX_PLATFORMS=cpu OMP_NUM_THREADS=1 OPENBLAS_NUM_THREADS=1
export XLA_FLAGS="--xla_cpu_multi_thread_eigen=false intra_op_parallelism_threads=1"
export JAX_COMPILATION_CACHE_DIR=$PWD/.cache/jax JAX_PERSISTENT_CACHE_MIN_COMPILE_TIME_SECS=0 JAX_PERSISTENT_CACHE_MIN_ENTRY_SIZE_BYTES=-1
REPO=${PWV_REPO:-/repo}
export PYTHONPATH=$REPO:$PWD:$PWD/.deps PWV_REPO=$REPO PYTHONDONTWRITEBYTECODE=1
one() { p=$1; s=$2
  COVERAGE_FILE=$D/data.$p.$s /venv/bin/python -m coverage run --branch --source=$REPO/photon_weave -m pwv.worker --prop $p --tier quick \
     --seed 5 --shard $s --nshards 16 --budget $B --out $D/$p.$s.json > $D/$p.$s.log 2>&1; }
export -f one; export D B REPO
for p in C01 C02 C03 C04 C05 C06 C07 C08 C09 C10 C11 C12 C13 C14 C15 C16 C17 C18 C19 C20; do for s in $(seq 0 $((NS-1))); do echo "$p $s"; done; done \
  | xargs -P 8 -L 1 bash -c 'one $0 $1'
COVERAGE_FILE=$D/all /venv/bin/python -m coverage combine $D/data.* > /dev/null 2>&1
COVERAGE_FILE=$D/all /venv/bin/python -m coverage report --show-missing --skip-empty > $D/report.txt 2>&1
tail -30 $D/report.txt
