#!/usr/bin/env python3
"""Regenerates /verif/MANIFEST.json from the property registry."""
import json, os, sys
V = os.path.dirname(os.path.dirname(os.path.abspath(__file__)))
props = [json.loads(l) for l in open(os.path.join(V, "properties.jsonl"))]
TECH = {
 "C01": "transition-local reference-model monitor (pre/post object-graph snapshots vs numpy simulator) on generated programs",
 "C02": "transition-local invariance monitor (joint state before/after structural calls) + partial-trace value oracle",
 "C03": "transition-local reference-model monitor for multi-operand operations, operands in every order and layout",
 "C04": "sampler interception (jax.random.choice): every draw's p vector matched against reduced diagonals of the reference",
 "C05": "steered sampler, every branch followed; collapse/retirement oracle + dead-subsystem probes",
 "C06": "transition-local reference-model monitor for Kraus channels (sum K rho K^dagger, level rule)",
 "C07": "invariant at a hook: validity predicates over every stored block after each successful outermost call",
 "C08": "call-level monitor for expand/contract + offline comparison of twin runs (contraction on/off/toggled)",
 "C09": "sampler interception + reference-model monitor for POVMs at every entry point, every branch steered",
 "C10": "monitor of resize return value/dimension/state + truncation-loss monitor against a cutoff+40 reference",
 "C11": "conservation monitor (total photon number distribution) + SU(2) reference + Mach-Zehnder closed form",
 "C12": "icontract post-conditions on the real operator constructors and Operation.operator, parameter sweeps",
 "C13": "invariant at a hook: bookkeeping predicates over the object graph at every quiescent point, unrelated-composite bit comparison",
 "C14": "offline comparison of recorded key/outcome logs: re-seeded twin, fresh-process twin, key hygiene of every draw",
 "C15": "offline comparison of twin runs (operation reused / fresh / interleaved) + byte snapshots of user arrays",
 "C16": "icontract post-condition on the real interpreter vs independent evaluator on a pre-call copy; leaf byte snapshots",
 "C17": "fault injection at the request level with rejection / unchanged-state / well-formedness / continuation oracles",
 "C18": "metamorphic twin runs (equal-valued vs value-distinct worlds), structural and physical comparison per step",
 "C19": "icontract post-condition on Envelope.overlap_integral vs closed form, symmetry check, width sweep",
 "C20": "storage-partition monitor: blocks of pre/post snapshots compared (members, order, level, bytes)",
}
checks = []
for p in props:
    i = p["id"]
    lvl = "fault_enumeration" if i == "C17" else "exploration"
    checks.append({
        "property_id": i,
        "quick_cmd": f"./check {i} --tier quick",
        "thorough_cmd": f"./check {i} --tier thorough",
        "evidence_file": f"evidence/{i}.json",
        "replay_cmd_template": f"./check {i} --replay {{path}}",
        "engine": "pwv",
        "level_claimed": {
            "category": lvl,
            "text": ("Runtime monitoring of the real library: held on the monitored executions of this run (counts, cells and "
                     "handler functions reached are in the evidence file); nothing is proved. Quick: 16 shards x ~55 s of seeded "
                     "generated workloads; thorough: 16 shards x ~7 min with larger worlds. A violation comes with a replayable JSON program."),
            "design_ref": f"DESIGN.md section 4/{i}",
        },
        "level_note": ("trusted: the numpy/scipy reference simulator and operator library (self-checked at start-up), float64 JAX numerics to 1e-8, "
                       "observation at the boundary of outermost public calls only; known findings listed in known_findings.jsonl are reported as KNOWN-FINDING, not as violations"),
        "technique": TECH[i],
    })
man = {
    "version": 1,
    "setup_cmd": "./setup.sh",
    "hooks": {
        "guard": "PHOTON_WEAVE_VERIF",
        "enable": "no source hooks: ./check sets PHOTON_WEAVE_VERIF=1 and pwv.instrument/pwv.contracts monkey-patch jax.random.choice, Config.random_key, sys.monitoring and icontract post-conditions from the harness; /repo is imported from its working tree (PYTHONPATH), Python needs no build",
        "baseline_off_cmd": "cd /repo && /venv/bin/python -m pytest -ra -q -p no:cacheprovider --timeout=900 --continue-on-collection-errors",
        "source_commits": [],
        "add_only": True,
    },
    "engines": [{"name": "pwv", "path": "pwv/", "serves_properties": [p["id"] for p in props],
                 "kind_free_text": "runtime monitoring harness: snapshot/denotation of the object graph, reference simulator, sampler interception, icontract contracts, twin-run comparators, fault injection"}],
    "checks": checks,
    "notes": "Genuine defects found by the monitors were repaired in /repo by individual 'fix:' commits (listed as fixed: entries in known_findings.jsonl); see DESIGN.md section 6.",
    "not_applicable": [],
}
json.dump(man, open(os.path.join(V, "MANIFEST.json"), "w"), indent=1)
print("wrote MANIFEST.json with", len(checks), "checks")
