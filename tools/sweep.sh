#!/bin/bash
# usage: tools/sweep.sh <tier> <seed> [seed...]    (env PWV_REPO / VP_RUN_REPO selects the tree; PROPS selects checks)
# runs every check for every seed, prints one summary line per run and all VIOLATION / KNOWN-FINDING / INCONCLUSIVE lines
cd "$(dirname "$0")/.."
tier=$1; shift
[ -n "$VP_RUN_REPO" ] && export PWV_REPO="$VP_RUN_REPO"
props=${PROPS:-"C01 C02 C03 C04 C05 C06 C07 C08 C09 C10 C11 C12 C13 C14 C15 C16 C17 C18 C19 C20"}
[ -d .deps/icontract ] || ./setup.sh >/dev/null 2>&1
for seed in "$@"; do
  for p in $props; do
    out=$(VERIF_SEED=$seed ./check $p --tier $tier 2>&1); rc=$?
    echo "rc=$rc seed=$seed $(echo "$out" | head -1)"
    echo "$out" | grep -E "^(VIOLATION|KNOWN-FINDING|INCONCLUSIVE|  note)" | cut -c1-420 | head -12
  done
done
