#!/usr/bin/env python3
"""Generates seeded/RESULTS.md from seeded/*/meta.json + detect.json + confirm.json"""
import json, os, glob
V = os.path.dirname(os.path.dirname(os.path.abspath(__file__)))
rows = ["| id | property | change | needs | confirmed (demo fails with / passes without, 180 baseline tests pass) | caught by (quick check) |", "|---|---|---|---|---|---|"]
for d in sorted(glob.glob(os.path.join(V, "seeded", "*"))):
    if not os.path.isdir(d):
        continue
    try:
        m = json.load(open(os.path.join(d, "meta.json")))
    except Exception:
        continue
    det = json.load(open(os.path.join(d, "detect.json"))) if os.path.exists(os.path.join(d, "detect.json")) else {}
    con = json.load(open(os.path.join(d, "confirm.json"))) if os.path.exists(os.path.join(d, "confirm.json")) else {}
    caught = ", ".join(f"{k}: {'VIOLATION x%d' % v['violations'] if v['rc'] == 1 else 'missed (rc=%d)' % v['rc']}" for k, v in det.get("checks", {}).items()) or "-"
    c = "yes" if con.get("confirmed") else ("no: " + json.dumps({k: con.get(k) for k in ("applies", "demo_clean_rc", "demo_mutant_rc", "suite_missing")}) if con else "-")
    rows.append(f"| {os.path.basename(d)} | {m.get('property')} | {str(m.get('summary',''))[:260]} | {str(m.get('needs',''))[:260]} | {c} | {caught} |")
open(os.path.join(V, "seeded", "RESULTS.md"), "w").write("# Seeded defects\n\n" + "\n".join(rows) + "\n")
print("\n".join(rows[2:]))
